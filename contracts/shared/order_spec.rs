// ======================================================================================
// Shared specification text (one text, two readers):
//   * tools/kx.py copies it unchanged into the Kani harness module (N = f64 / f32, `orient` = orientation oracle,
//     `inter_kind` = intersection oracle), where the harnesses prove  real code == this spec  for all finite floats;
//   * tools/vx.py turns every `pub fn` into `pub open spec fn` (N = int, `orient` = sign of the determinant), where
//     Verus proves the order laws of this spec.
// Only expression forms valid in both worlds are used: if/else, && || !, comparisons, field access, calls.
// The orders are written from the statement of C15: events by x, then y, then right-before-left, then angular
// (the lower segment first), collinear: subject first; segments by the orientation of the later left endpoint
// w.r.t. the earlier segment.
// ======================================================================================

/// lexicographic (x, y) order on points
pub fn pt_lt(a: P, b: P) -> bool {
    a.x < b.x || (a.x == b.x && a.y < b.y)
}

pub fn pt_eq(a: P, b: P) -> bool {
    a.x == b.x && a.y == b.y
}

/// c lies strictly above (to the left of) the segment of event e, oriented from its left to its right endpoint
pub fn ev_below_pt(e: Ev, c: P) -> bool {
    if e.left { orient(e.p, e.q, c) > 0 } else { orient(e.q, e.p, c) > 0 }
}

/// the pair is one the event order has to decide by more than identity: two events at one point with the same
/// left/right flag whose segments are collinear belong to different operands (property statement, validity)
pub fn ev_pair_valid(a: Ev, b: Ev) -> bool {
    !(pt_eq(a.p, b.p) && a.left == b.left && orient(a.p, a.q, b.q) == 0 && a.subject == b.subject)
}

/// a is processed before b
pub fn ev_before(a: Ev, b: Ev) -> bool {
    if a.p.x != b.p.x {
        a.p.x < b.p.x
    } else if a.p.y != b.p.y {
        a.p.y < b.p.y
    } else if a.left != b.left {
        !a.left
    } else if orient(a.p, a.q, b.q) != 0 {
        ev_below_pt(a, b.q)
    } else {
        a.subject && !b.subject
    }
}

/// the order on segments given by their left events `a`, `b` (distinct segments); true: a is below b.
/// `o` is the older (earlier left event), `n` the newer one.
pub fn seg_old_below_new(o: Ev, n: Ev) -> bool {
    if orient(o.p, o.q, n.p) != 0 || orient(o.p, o.q, n.q) != 0 {
        if pt_eq(o.p, n.p) {
            ev_below_pt(o, n.q)
        } else if o.p.x == n.p.x {
            o.p.y < n.p.y
        } else if (orient(o.p, o.q, n.p) > 0) == (orient(o.p, o.q, n.q) > 0) {
            orient(o.p, o.q, n.p) > 0
        } else if orient(o.p, o.q, n.p) == 0 {
            orient(o.p, o.q, n.q) > 0
        } else if inter_kind(o.p, o.q, n.p, n.q) == 0 {
            orient(o.p, o.q, n.p) > 0
        } else if inter_kind(o.p, o.q, n.p, n.q) == 1 {
            orient(o.p, o.q, n.q) > 0
        } else if inter_kind(o.p, o.q, n.p, n.q) == 2 {
            orient(o.p, o.q, n.p) > 0
        } else {
            seg_collinear_old_below_new(o, n)
        }
    } else {
        seg_collinear_old_below_new(o, n)
    }
}

/// collinear segments: different operands: subject below; same operand: equal left points by contour id, else older below
pub fn seg_collinear_old_below_new(o: Ev, n: Ev) -> bool {
    if o.subject == n.subject {
        if pt_eq(o.p, n.p) { o.contour < n.contour } else { true }
    } else {
        o.subject
    }
}

/// a is below b (a, b left events of two distinct segments)
pub fn seg_below(a: Ev, b: Ev) -> bool {
    if ev_before(a, b) { seg_old_below_new(a, b) } else { !seg_old_below_new(b, a) }
}
