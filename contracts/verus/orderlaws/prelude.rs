// ======================================================================================
// C15 step 2: the written-down orders of contracts/shared/order_spec.rs are consistent orders.
// Coordinates are unbounded integers; `orient` is the sign of the exact determinant (the contract of
// robust::orient2d).  Finite floats are dyadic rationals: scaling a finite configuration by a power of two makes
// it integral without changing any comparison or orientation sign, so the laws transfer (paper argument, listed
// as an assumption in the evidence).
// ======================================================================================
pub struct P {
    pub x: int,
    pub y: int,
}

pub struct Ev {
    pub p: P,
    pub q: P,
    pub left: bool,
    pub subject: bool,
    pub contour: int,
}

pub open spec fn det(a: P, b: P, c: P) -> int {
    (b.x - a.x) * (c.y - a.y) - (b.y - a.y) * (c.x - a.x)
}

pub open spec fn orient(a: P, b: P, c: P) -> int {
    if det(a, b, c) > 0 { 1 } else if det(a, b, c) < 0 { -1 } else { 0 }
}

// classification of `intersection(o.p, o.q, n.p, n.q)`: 0 None, 1 Point == n.p, 2 Point != n.p, 3 Overlap.
// Left uninterpreted: the laws below hold for every intersection routine, except where its contract is required
// explicitly as a hypothesis.
pub uninterp spec fn inter_kind(a1: P, a2: P, b1: P, b2: P) -> int;

