
// ======================================================================================
// Lemmas
// ======================================================================================
pub open spec fn cross(ax: int, ay: int, bx: int, by: int) -> int {
    ax * by - ay * bx
}

// open upper half plane plus the positive y axis: directions of segments seen from their left endpoint
pub open spec fn in_h(x: int, y: int) -> bool {
    x > 0 || (x == 0 && y > 0)
}

// an event of a valid segment: a left event has its partner later in (x, y) order, a right event earlier
pub open spec fn ev_proper(e: Ev) -> bool {
    if e.left { pt_lt(e.p, e.q) } else { pt_lt(e.q, e.p) }
}

proof fn lemma_plucker(x1: int, y1: int, x2: int, y2: int, x3: int, y3: int)
    ensures
        cross(x1, y1, x3, y3) * x2 == cross(x1, y1, x2, y2) * x3 + cross(x2, y2, x3, y3) * x1,
        cross(x1, y1, x3, y3) * y2 == cross(x1, y1, x2, y2) * y3 + cross(x2, y2, x3, y3) * y1,
{
    assert((x1 * y3 - y1 * x3) * x2 == (x1 * y2 - y1 * x2) * x3 + (x2 * y3 - y2 * x3) * x1) by(nonlinear_arith);
    assert((x1 * y3 - y1 * x3) * y2 == (x1 * y2 - y1 * x2) * y3 + (x2 * y3 - y2 * x3) * y1) by(nonlinear_arith);
}

// counter-clockwise order of directions inside a half plane is transitive; a collinear (same ray) step keeps the sign
proof fn lemma_halfplane_trans(x1: int, y1: int, x2: int, y2: int, x3: int, y3: int)
    requires
        in_h(x1, y1), in_h(x2, y2), in_h(x3, y3),
        cross(x1, y1, x2, y2) >= 0, cross(x2, y2, x3, y3) >= 0,
        cross(x1, y1, x2, y2) > 0 || cross(x2, y2, x3, y3) > 0,
    ensures cross(x1, y1, x3, y3) > 0,
{
    lemma_plucker(x1, y1, x2, y2, x3, y3);
    let c12 = cross(x1, y1, x2, y2);
    let c23 = cross(x2, y2, x3, y3);
    let c13 = cross(x1, y1, x3, y3);
    if x2 > 0 {
        assert(c12 * x3 >= 0) by(nonlinear_arith) requires c12 >= 0, x3 >= 0;
        assert(c23 * x1 >= 0) by(nonlinear_arith) requires c23 >= 0, x1 >= 0;
        // c13 * x2 == c12 * x3 + c23 * x1; show one summand is positive
        if c12 > 0 && x3 > 0 {
            assert(c12 * x3 > 0) by(nonlinear_arith) requires c12 > 0, x3 > 0;
        } else if c23 > 0 && x1 > 0 {
            assert(c23 * x1 > 0) by(nonlinear_arith) requires c23 > 0, x1 > 0;
        } else if c12 > 0 {
            // x3 == 0, so y3 > 0; c23 = x2*y3 - y2*0 > 0, so x1 must be 0 too (else previous branch)
            assert(x3 == 0 && y3 > 0);
            assert(c23 == x2 * y3) by(nonlinear_arith) requires c23 == x2 * y3 - y2 * x3, x3 == 0;
            assert(x2 * y3 > 0) by(nonlinear_arith) requires x2 > 0, y3 > 0;
            assert(x1 == 0 && y1 > 0);
            assert(c12 == -(y1 * x2)) by(nonlinear_arith) requires c12 == x1 * y2 - y1 * x2, x1 == 0;
            assert(y1 * x2 > 0) by(nonlinear_arith) requires y1 > 0, x2 > 0;
            assert(false);
        } else {
            // c12 == 0, c23 > 0, x1 == 0: v1 = (0, y1>0) collinear with v2 = (x2>0, y2): 0*y2 - y1*x2 == 0 impossible
            assert(x1 == 0 && y1 > 0);
            assert(c12 == -(y1 * x2)) by(nonlinear_arith) requires c12 == x1 * y2 - y1 * x2, x1 == 0;
            assert(y1 * x2 > 0) by(nonlinear_arith) requires y1 > 0, x2 > 0;
            assert(false);
        }
        assert(c13 * x2 > 0);
        assert(c13 > 0) by(nonlinear_arith) requires c13 * x2 > 0, x2 > 0;
    } else {
        // v2 = (0, y2 > 0): c12 = x1*y2 >= 0, c23 = -y2*x3 >= 0 => x3 == 0
        assert(x2 == 0 && y2 > 0);
        assert(c23 == -(y2 * x3)) by(nonlinear_arith) requires c23 == x2 * y3 - y2 * x3, x2 == 0;
        assert(c12 == x1 * y2) by(nonlinear_arith) requires c12 == x1 * y2 - y1 * x2, x2 == 0;
        if x3 > 0 {
            assert(y2 * x3 > 0) by(nonlinear_arith) requires y2 > 0, x3 > 0;
            assert(false);
        }
        assert(x3 == 0 && y3 > 0);
        assert(c23 == 0);
        assert(c12 > 0);
        if x1 == 0 {
            assert(x1 * y2 == 0) by(nonlinear_arith) requires x1 == 0;
            assert(false);
        }
        assert(x1 > 0);
        assert(c13 == x1 * y3) by(nonlinear_arith) requires c13 == x1 * y3 - y1 * x3, x3 == 0;
        assert(x1 * y3 > 0) by(nonlinear_arith) requires x1 > 0, y3 > 0;
    }
}

// det(p, a, b) is the cross product of the directions a - p and b - p; swapping two arguments flips the sign
proof fn lemma_det_cross(p: P, a: P, b: P)
    ensures
        det(p, a, b) == cross(a.x - p.x, a.y - p.y, b.x - p.x, b.y - p.y),
        det(p, b, a) == -det(p, a, b),
        det(a, p, b) == -det(p, a, b),
{
    let (ax, ay, bx, by) = (a.x - p.x, a.y - p.y, b.x - p.x, b.y - p.y);
    assert(det(p, b, a) == -det(p, a, b)) by(nonlinear_arith)
        requires det(p, b, a) == bx * ay - by * ax, det(p, a, b) == ax * by - ay * bx;
    assert(det(a, p, b) == -(ax * by - ay * bx)) by(nonlinear_arith)
        requires det(a, p, b) == (p.x - a.x) * (b.y - a.y) - (p.y - a.y) * (b.x - a.x), ax == a.x - p.x, ay == a.y - p.y, bx == b.x - p.x, by == b.y - p.y;
}

// ---- L-E1: on valid pairs of proper events exactly one of the two is first --------------------------------------
pub proof fn lemma_ev_total(a: Ev, b: Ev)
    requires ev_proper(a), ev_proper(b), ev_pair_valid(a, b),
    ensures ev_before(a, b) != ev_before(b, a), ev_pair_valid(b, a),
{
    if pt_eq(a.p, b.p) && a.left == b.left {
        lemma_det_cross(a.p, a.q, b.q);
        assert(b.p == a.p);
        // orient(b.p, b.q, a.q) == -orient(a.p, a.q, b.q)
        if !a.left {
            // right events: ev_below_pt uses orient(q, p, c)
            lemma_det_cross(a.p, a.q, b.q);
            lemma_det_cross(a.p, b.q, a.q);
            assert(det(a.q, a.p, b.q) == -det(a.p, a.q, b.q));
            assert(det(b.q, a.p, a.q) == -det(a.p, b.q, a.q));
        }
    }
}

// ---- L-E2: the event order is transitive on pairwise valid proper events ------------------------------------------
pub proof fn lemma_ev_trans(a: Ev, b: Ev, c: Ev)
    requires
        ev_proper(a), ev_proper(b), ev_proper(c),
        ev_pair_valid(a, b), ev_pair_valid(b, c), ev_pair_valid(a, c),
        ev_before(a, b), ev_before(b, c),
    ensures ev_before(a, c),
{
    if pt_eq(a.p, b.p) && pt_eq(b.p, c.p) && a.left == b.left && b.left == c.left {
        let p = a.p;
        assert(b.p == p && c.p == p);
        let (x1, y1) = (a.q.x - p.x, a.q.y - p.y);
        let (x2, y2) = (b.q.x - p.x, b.q.y - p.y);
        let (x3, y3) = (c.q.x - p.x, c.q.y - p.y);
        lemma_det_cross(p, a.q, b.q);
        lemma_det_cross(p, b.q, c.q);
        lemma_det_cross(p, a.q, c.q);
        if a.left {
            // directions point into the half plane; before(a,b) <=> cross(va,vb) > 0, or collinear and subject first
            assert(in_h(x1, y1) && in_h(x2, y2) && in_h(x3, y3));
            if det(p, a.q, b.q) == 0 && det(p, b.q, c.q) == 0 {
                assert(false);   // a subject, b clipping, b subject, c clipping
            }
            lemma_halfplane_trans(x1, y1, x2, y2, x3, y3);
        } else {
            // right events: directions point into the opposite half plane and the order is clockwise:
            // mirror through p and swap the roles of a and c
            assert(in_h(-x1, -y1) && in_h(-x2, -y2) && in_h(-x3, -y3));
            assert(cross(-x3, -y3, -x2, -y2) == -cross(x2, y2, x3, y3)) by(nonlinear_arith);
            assert(cross(-x2, -y2, -x1, -y1) == -cross(x1, y1, x2, y2)) by(nonlinear_arith);
            assert(cross(-x3, -y3, -x1, -y1) == -cross(x1, y1, x3, y3)) by(nonlinear_arith);
            if det(p, a.q, b.q) == 0 && det(p, b.q, c.q) == 0 {
                assert(false);
            }
            lemma_halfplane_trans(-x3, -y3, -x2, -y2, -x1, -y1);
        }
    }
}

// ---- L-S1: the segment order is antisymmetric on valid pairs ------------------------------------------------------
pub proof fn lemma_seg_antisym(a: Ev, b: Ev)
    requires ev_proper(a), ev_proper(b), a.left, b.left, ev_pair_valid(a, b),
    ensures seg_below(a, b) != seg_below(b, a),
{
    lemma_ev_total(a, b);
}

// what the intersection routine must guarantee for L-S2: it reports "the later left endpoint itself" only if that
// endpoint lies on the supporting line of the earlier segment (C16 clause, proved over reals in the segint unit)
// and it reports an overlap only for collinear segments
pub open spec fn inter_contract(o: Ev, n: Ev) -> bool {
    &&& inter_kind(o.p, o.q, n.p, n.q) == 1 ==> orient(o.p, o.q, n.p) == 0
    &&& !(0 <= inter_kind(o.p, o.q, n.p, n.q) <= 2) ==> orient(o.p, o.q, n.p) == 0 && orient(o.p, o.q, n.q) == 0
}

// ---- L-S2: agreement with the vertical order ---------------------------------------------------------------------------
// o is the earlier, n the later left event, n starts inside the x-extent of o.  If n's left endpoint is off the
// supporting line of o, the order is the side on which it lies (for a non-vertical o: n.p is above o at abscissa n.p.x
// exactly when (n.p.y - o.p.y) * (o.q.x - o.p.x) > (o.q.y - o.p.y) * (n.p.x - o.p.x), which is det > 0); if it lies on
// the line, the side of n's right endpoint decides.  No third outcome for non-collinear segments.
pub proof fn lemma_seg_vertical_order(o: Ev, n: Ev)
    requires
        ev_proper(o), ev_proper(n), o.left, n.left, ev_pair_valid(o, n), ev_before(o, n),
        inter_contract(o, n),
        o.p.x <= n.p.x <= o.q.x,
        det(o.p, o.q, n.p) != 0 || det(o.p, o.q, n.q) != 0,      // not collinear
    ensures
        o.p.x < o.q.x && det(o.p, o.q, n.p) != 0 ==> (seg_below(o, n) <==> det(o.p, o.q, n.p) > 0),
        o.p.x < o.q.x && det(o.p, o.q, n.p) != 0 ==>
            (det(o.p, o.q, n.p) > 0 <==> (n.p.y - o.p.y) * (o.q.x - o.p.x) > (o.q.y - o.p.y) * (n.p.x - o.p.x)),
        o.p.x < o.q.x && det(o.p, o.q, n.p) == 0 ==> (seg_below(o, n) <==> det(o.p, o.q, n.q) > 0),
        // vertical earlier segment: the later one starts on its line; below <=> it starts at or above ... by y
        o.p.x == o.q.x && !pt_eq(o.p, n.p) ==> (seg_below(o, n) <==> o.p.y < n.p.y),
{
    lemma_ev_total(o, n);
    assert(seg_below(o, n) == seg_old_below_new(o, n));
    assert(det(o.p, o.q, n.p) == (o.q.x - o.p.x) * (n.p.y - o.p.y) - (o.q.y - o.p.y) * (n.p.x - o.p.x));
    assert((o.q.x - o.p.x) * (n.p.y - o.p.y) == (n.p.y - o.p.y) * (o.q.x - o.p.x)) by(nonlinear_arith);
    if o.p.x < o.q.x {
        if pt_eq(o.p, n.p) {
            assert(det(o.p, o.q, n.p) == 0) by(nonlinear_arith) requires n.p.x == o.p.x, n.p.y == o.p.y,
                det(o.p, o.q, n.p) == (o.q.x - o.p.x) * (n.p.y - o.p.y) - (o.q.y - o.p.y) * (n.p.x - o.p.x);
        } else if o.p.x == n.p.x {
            // same abscissa as o's left endpoint: det = (o.q.x - o.p.x) * (n.p.y - o.p.y), sign of the y difference
            assert(det(o.p, o.q, n.p) == (o.q.x - o.p.x) * (n.p.y - o.p.y)) by(nonlinear_arith)
                requires n.p.x == o.p.x, det(o.p, o.q, n.p) == (o.q.x - o.p.x) * (n.p.y - o.p.y) - (o.q.y - o.p.y) * (n.p.x - o.p.x);
            assert((o.q.x - o.p.x) * (n.p.y - o.p.y) > 0 <==> n.p.y > o.p.y) by(nonlinear_arith) requires o.q.x - o.p.x > 0;
        }
    } else {
        // o vertical: n.p.x == o.p.x
        if !pt_eq(o.p, n.p) {
            assert(o.p.x == n.p.x);
        }
    }
}

// ---- non-vacuity: the hypotheses of the laws are satisfiable (concrete instances) ------------------------------------
proof fn witness_event_laws() {
    let o = P { x: 0, y: 0 };
    let a = Ev { p: o, q: P { x: 2, y: -1 }, left: true, subject: true, contour: 1 };
    let b = Ev { p: o, q: P { x: 1, y: 1 }, left: true, subject: false, contour: 2 };
    let c = Ev { p: o, q: P { x: 0, y: 3 }, left: true, subject: true, contour: 3 };
    assert(ev_proper(a) && ev_proper(b) && ev_proper(c));
    assert(det(o, a.q, b.q) == 3 && det(o, b.q, c.q) == 3 && det(o, a.q, c.q) == 6) by(nonlinear_arith)
        requires o.x == 0, o.y == 0, a.q.x == 2, a.q.y == -1, b.q.x == 1, b.q.y == 1, c.q.x == 0, c.q.y == 3;
    assert(ev_pair_valid(a, b) && ev_pair_valid(b, c) && ev_pair_valid(a, c));
    assert(ev_before(a, b) && ev_before(b, c));
    lemma_ev_trans(a, b, c);
    lemma_ev_total(a, c);
    assert(ev_before(a, c) && !ev_before(c, a));
    // collinear twins of different operands: subject first
    let t = Ev { p: o, q: P { x: 2, y: 2 }, left: true, subject: true, contour: 4 };
    assert(det(o, t.q, b.q) == 0) by(nonlinear_arith) requires o.x == 0, o.y == 0, t.q.x == 2, t.q.y == 2, b.q.x == 1, b.q.y == 1;
    assert(ev_pair_valid(t, b) && ev_before(t, b) && !ev_before(b, t));
}

proof fn witness_segment_laws()
{
    let o = Ev { p: P { x: 0, y: 0 }, q: P { x: 4, y: 0 }, left: true, subject: true, contour: 1 };
    let n = Ev { p: P { x: 1, y: 1 }, q: P { x: 3, y: 5 }, left: true, subject: false, contour: 2 };
    assert(det(o.p, o.q, n.p) == 4 && det(o.p, o.q, n.q) == 20) by(nonlinear_arith)
        requires o.p.x == 0, o.p.y == 0, o.q.x == 4, o.q.y == 0, n.p.x == 1, n.p.y == 1, n.q.x == 3, n.q.y == 5;
    assert(ev_proper(o) && ev_proper(n) && ev_pair_valid(o, n) && ev_before(o, n));
    assert(seg_old_below_new(o, n));          // both endpoints of n above o: no intersection consulted
    assert(seg_below(o, n));
    lemma_seg_antisym(o, n);
    assert(!seg_below(n, o));
}
