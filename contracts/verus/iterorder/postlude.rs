
// ---- non-vacuity: a concrete map with the promised structure ------------------------------------------------------------------
// two right events followed by two left events at one vertex: 0 -> 1 -> 3 -> 2 -> 0
proof fn witness_group() {
    let m: Seq<usize> = seq![1usize, 3usize, 0usize, 2usize];
    assert(m[0] == 1 && m[1] == 3 && m[2] == 0 && m[3] == 2);
    assert(group_ok(m, 0, 2, 4));
    assert(in_group(m, 2, 4));
    lemma_cycle(m, 0, 2, 4, 2, 4);
    assert(iter(m, 2, 4) == 2);
}
