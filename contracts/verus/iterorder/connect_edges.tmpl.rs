

/// Helper function that identifies groups of sweep event that belong to one
/// vertex, and precomputes in which order the events within one group should
/// be iterated. The result is a vector with the semantics:
///
/// map[i] = index of next event belonging to vertex
///
/// Iteration order is in positive index direction for right events, but in
/// reverse index direction for left events in order to ensure strict clockwise
/// iteration around the vertex.
//@ #[verifier::loop_isolation(false)]
fn precompute_iteration_order<T, I, L>(data: &[T], is_identical: I, is_left: L) -> /*@ (map: @*/ Vec<usize> /*@ ) @*/
where
    I: Fn(&T, &T) -> bool,
    L: Fn(&T) -> bool,
    //@ requires
    //@     // the closures are total and deterministic, `is_identical` is reflexive (found by the termination obligation)
    //@     pure2(is_identical), pure1(is_left),
    //@     forall|x: T| #[trigger] fn2(is_identical)(x, x),
    //@     // call-site precondition (what the debug assertion says): inside a run of identical elements no right
    //@     // event follows a left event
    //@     forall|a: int, j: int, k: int| #![trigger fn2(is_identical)(data@[a], data@[j]), fn2(is_identical)(data@[a], data@[k])]
    //@         0 <= a <= j < k < data@.len() && fn2(is_identical)(data@[a], data@[j]) && fn2(is_identical)(data@[a], data@[k])
    //@             && fn1(is_left)(data@[j]) ==> fn1(is_left)(data@[k]),
    //@ ensures
    //@     map@.len() == data@.len(),
    //@     // every index belongs to a group on which the map is one cycle through the whole group
    //@     forall|j: int| 0 <= j < map@.len() ==> #[trigger] in_group(map@, j, map@.len() as int),
{
    let mut map = vec![0; data.len()];
    //@ let ghost n = data@.len() as int;
    //@ let ghost idf = fn2(is_identical);
    //@ let ghost lf = fn1(is_left);
    //@ proof { assert(desc2(is_identical, idf)); assert(desc1(is_left, lf)); }

    let mut i = 0;
    while i < data.len()
        //@ invariant
        //@     0 <= i <= n, n == data@.len(), map@.len() == n,
        //@     idf == fn2(is_identical), lf == fn1(is_left), desc2(is_identical, idf), desc1(is_left, lf),
        //@     forall|x: T| #[trigger] idf(x, x),
        //@     forall|a: int, j: int, k: int| #![trigger idf(data@[a], data@[j]), idf(data@[a], data@[k])]
        //@         0 <= a <= j < k < n && idf(data@[a], data@[j]) && idf(data@[a], data@[k]) && lf(data@[j]) ==> lf(data@[k]),
        //@     forall|j: int| 0 <= j < i ==> #[trigger] in_group(map@, j, i as int),
        //@ decreases n - i
    {
        let x_ref = &data[i];
        //@ let ghost m0 = map@;
        //@ let ghost x = data@[i as int];

        // Find index range of R events
        let r_from = i;
        while i < data.len() && is_identical(x_ref, &data[i]) && !is_left(&data[i])
            //@ invariant
            //@     r_from <= i <= n, n == data@.len(), *x_ref == x, x == data@[r_from as int], r_from < n,
            //@     desc2(is_identical, idf), desc1(is_left, lf),
            //@     forall|j: int| r_from <= j < i ==> idf(x, #[trigger] data@[j]) && !lf(data@[j]),
            //@ decreases n - i
        {
            i += 1;
        }
        //@ proof { assert(i < n && idf(x, data@[i as int]) ==> lf(data@[i as int])); }
        let r_upto_exclusive = i;

        // Find index range of L event
        let l_from = i;
        while i < data.len() && is_identical(x_ref, &data[i])
            //@ invariant
            //@     l_from <= i <= n, n == data@.len(), *x_ref == x, x == data@[r_from as int], r_from <= l_from,
            //@     desc2(is_identical, idf), desc1(is_left, lf),
            //@     l_from < n && idf(x, data@[l_from as int]) ==> lf(data@[l_from as int]),
            //@     forall|j: int| l_from <= j < i ==> idf(x, #[trigger] data@[j]) && lf(data@[j]),
            //@     forall|a: int, j: int, k: int| #![trigger idf(data@[a], data@[j]), idf(data@[a], data@[k])]
            //@         0 <= a <= j < k < n && idf(data@[a], data@[j]) && idf(data@[a], data@[k]) && lf(data@[j]) ==> lf(data@[k]),
            //@ decreases n - i
        {
            //@ proof {
            //@     if i > l_from {
            //@         // data[l_from] is identical to x and left, so is every later identical element (call-site precondition)
            //@         assert(idf(data@[r_from as int], data@[l_from as int]) && idf(data@[r_from as int], data@[i as int]));
            //@         assert(lf(data@[l_from as int]));
            //@     }
            //@ }
            { let vx_dbg: bool =is_left(&data[i]); assert(vx_dbg); };
            i += 1;
        }
        let l_upto_exclusive = i;
        //@ proof {
        //@     // progress: x is identical to itself, so one of the two scans consumed it
        //@     assert(idf(x, x));
        //@     assert(l_upto_exclusive > r_from);
        //@ }

        let has_r_events = r_upto_exclusive > r_from;
        let has_l_events = l_upto_exclusive > l_from;

        if has_r_events {
            let r_upto = r_upto_exclusive - 1;
            // Connect elements in [r_from, r_upto) to larger index
            for j in r_from..r_upto
                //@ invariant
                //@     map@.len() == n, r_from <= r_upto < n,
                //@     forall|q: int| 0 <= q < r_from ==> map@[q] == m0[q],
                //@     forall|q: int| r_from <= q < j ==> #[trigger] map@[q] == q + 1,
            {
                map[j] = j + 1;
            }
            // Special handling of *last* element: Connect either the last L event
            // or loop back to start of R events (if no L events).
            if has_l_events {
                map[r_upto] = l_upto_exclusive - 1;
            } else {
                map[r_upto] = r_from;
            }
            //@ proof {
            //@     assert(forall|q: int| r_from <= q < r_upto ==> #[trigger] map@[q] == q + 1);
            //@     assert(forall|q: int| 0 <= q < r_from ==> #[trigger] map@[q] == m0[q]);
            //@ }
        }
        //@ let ghost m1 = map@;
        //@ proof {
        //@     assert(forall|q: int| 0 <= q < r_from ==> #[trigger] m1[q] == m0[q]);
        //@     assert(forall|q: int| r_from <= q < r_upto_exclusive - 1 ==> #[trigger] m1[q] == q + 1);
        //@ }
        if has_l_events {
            let l_upto = l_upto_exclusive - 1;
            // Connect elements in (l_from, l_upto] to lower index
            for j in l_from + 1..=l_upto
                //@ invariant
                //@     map@.len() == n, l_from <= l_upto < n,
                //@     forall|q: int| 0 <= q < l_from ==> map@[q] == m1[q],
                //@     forall|q: int| l_from < q < j ==> #[trigger] map@[q] == q - 1,
            {
                map[j] = j - 1;
            }
            // Special handling of *first* element: Connect either to the first R event
            // or loop back to end of L events (if no R events).
            if has_r_events {
                map[l_from] = r_from;
            } else {
                map[l_from] = l_upto;
            }
            //@ proof {
            //@     assert(forall|q: int| l_from < q <= l_upto ==> #[trigger] map@[q] == q - 1);
            //@     assert(forall|q: int| 0 <= q < l_from ==> #[trigger] map@[q] == m1[q]);
            //@ }
        }
        //@ proof {
        //@     assert(forall|q: int| 0 <= q < l_from ==> #[trigger] map@[q] == m1[q]);
        //@     assert forall|q: int| r_from <= q < r_upto_exclusive - 1 implies #[trigger] map@[q] == q + 1 by { assert(m1[q] == q + 1); }
        //@     assert forall|q: int| 0 <= q < r_from implies #[trigger] map@[q] == m0[q] by { assert(m1[q] == m0[q]); }
        //@ }
        //@ proof {
        //@     let (a, re, b) = (r_from as int, r_upto_exclusive as int, l_upto_exclusive as int);
        //@     assert(group_ok(map@, a, re, b)); // contract-step: the group just written is one cycle
        //@     assert forall|j: int| 0 <= j < b implies #[trigger] in_group(map@, j, b) by {
        //@         if j < a {
        //@             assert(in_group(m0, j, a));
        //@             let (a2, re2, b2) = choose|a2: int, re2: int, b2: int| a2 <= j < b2 <= a && #[trigger] group_ok(m0, a2, re2, b2);
        //@             lemma_group_frame(m0, map@, a2, re2, b2);
        //@             assert(group_ok(map@, a2, re2, b2));
        //@         }
        //@     }
        //@ }
    }

    map
}

//@ #[verifier::loop_isolation(false)]
fn get_next_pos(pos: i32, processed: &HashSet<i32>, iteration_map: &[usize]) -> /*@ (res: @*/ Option<i32> /*@ ) @*/
    //@ requires
    //@     0 <= pos < iteration_map@.len() <= i32::MAX,
    //@     // what precompute_iteration_order guarantees
    //@     forall|j: int| 0 <= j < iteration_map@.len() ==> #[trigger] in_group(iteration_map@, j, iteration_map@.len() as int),
    //@ ensures
    //@     match res {
    //@         // the next unprocessed index on the cycle of pos (k steps along the map), a valid index different from pos
    //@         Some(p) => 0 <= p < iteration_map@.len() && p != pos && !processed@.contains(p)
    //@                     && exists|k: nat| #[trigger] iter(iteration_map@, pos as int, k) == p,
    //@         None => true,
    //@     },
{
    let mut pos = pos;
    let start_pos = pos;
    //@ let ghost m = iteration_map@;
    //@ let ghost (a, re, b) = choose|a: int, re: int, b: int| a <= start_pos < b <= m.len() && #[trigger] group_ok(m, a, re, b);
    //@ let ghost mut k: nat = 0;
    //@ proof {
    //@     assert(in_group(m, start_pos as int, m.len() as int));
    //@     broadcast use vstd::std_specs::hash::group_hash_axioms;
    //@ }

    loop
        //@ invariant
        //@     m == iteration_map@, m.len() <= i32::MAX,
        //@     a <= start_pos < b <= m.len(), group_ok(m, a, re, b),
        //@     0 <= k < b - a, pos as int == iter(m, start_pos as int, k), a <= pos < b,
        //@ decreases (b - a) - k
    {
        //@ proof {
        //@     lemma_cycle(m, a, re, b, start_pos as int, k + 1);
        //@     lemma_iter_step(m, start_pos as int, k);
        //@ }
        pos = iteration_map[pos as usize] as i32;
        //@ proof { k = k + 1; }
        if pos == start_pos {
            // Entire group is already processed?
            return None;
        } else if !processed.contains(&pos) {
            //@ proof { assert(iter(iteration_map@, start_pos as int, k) == pos as int); }
            return Some(pos);
        }
        //@ proof {
        //@     // not back at the start: fewer than (group size) steps were taken
        //@     if k == b - a { lemma_cycle(m, a, re, b, start_pos as int, k); assert(false); }
        //@ }
    }
}
