// ======================================================================================
// Prelude of the iterorder unit: index machinery of connect_edges (C03: no out-of-bounds index, every loop terminates).
// ======================================================================================

// ---- closures as spec functions -------------------------------------------------------------------------------------------
pub open spec fn desc2<T, I: Fn(&T, &T) -> bool>(f: I, g: spec_fn(T, T) -> bool) -> bool {
    &&& forall|x: &T, y: &T| call_requires(f, (x, y))
    &&& forall|x: &T, y: &T, r: bool| call_ensures(f, (x, y), r) ==> r == g(*x, *y)
}

pub open spec fn desc1<T, L: Fn(&T) -> bool>(f: L, g: spec_fn(T) -> bool) -> bool {
    &&& forall|x: &T| call_requires(f, (x,))
    &&& forall|x: &T, r: bool| call_ensures(f, (x,), r) ==> r == g(*x)
}

// the closure is total and deterministic
pub open spec fn pure2<T, I: Fn(&T, &T) -> bool>(f: I) -> bool { exists|g: spec_fn(T, T) -> bool| desc2(f, g) }
pub open spec fn pure1<T, L: Fn(&T) -> bool>(f: L) -> bool { exists|g: spec_fn(T) -> bool| desc1(f, g) }
pub open spec fn fn2<T, I: Fn(&T, &T) -> bool>(f: I) -> spec_fn(T, T) -> bool { choose|g: spec_fn(T, T) -> bool| desc2(f, g) }
pub open spec fn fn1<T, L: Fn(&T) -> bool>(f: L) -> spec_fn(T) -> bool { choose|g: spec_fn(T) -> bool| desc1(f, g) }

// ---- what the iteration map looks like ---------------------------------------------------------------------------------------
// one group [a, b): right events [a, re), left events [re, b); the map is the single cycle
//    a -> a+1 -> ... -> re-1 -> b-1 -> b-2 -> ... -> re -> a
pub open spec fn group_ok(m: Seq<usize>, a: int, re: int, b: int) -> bool {
    &&& 0 <= a <= re <= b <= m.len()
    &&& a < b
    &&& forall|j: int| a <= j < re - 1 ==> #[trigger] m[j] == j + 1
    &&& re > a ==> m[re - 1] == (if b > re { b - 1 } else { a })
    &&& forall|j: int| re < j < b ==> #[trigger] m[j] == j - 1
    &&& b > re ==> m[re] == (if re > a { a } else { b - 1 })
}

// index j belongs to a group that ends at or before `upto`
pub open spec fn in_group(m: Seq<usize>, j: int, upto: int) -> bool {
    exists|a: int, re: int, b: int| a <= j < b <= upto && #[trigger] group_ok(m, a, re, b)
}

pub proof fn lemma_group_frame(m: Seq<usize>, m2: Seq<usize>, a: int, re: int, b: int)
    requires group_ok(m, a, re, b), m2.len() == m.len(), forall|j: int| a <= j < b ==> m2[j] == m[j],
    ensures group_ok(m2, a, re, b),
{
    assert forall|j: int| a <= j < re - 1 implies #[trigger] m2[j] == j + 1 by { assert(m[j] == j + 1); }
    assert forall|j: int| re < j < b implies #[trigger] m2[j] == j - 1 by { assert(m[j] == j - 1); }
}

// ---- the cycle ------------------------------------------------------------------------------------------------------------------
// position of index j on the cycle of its group, and back
pub open spec fn rank_of(a: int, re: int, b: int, j: int) -> int {
    if j < re { j - a } else { (re - a) + (b - 1 - j) }
}

pub open spec fn elem_of(a: int, re: int, b: int, r: int) -> int {
    if r < re - a { a + r } else { b - 1 - (r - (re - a)) }
}

// k-fold application of the map
pub open spec fn iter(m: Seq<usize>, j: int, k: nat) -> int
    decreases k
{
    if k == 0 { j } else if 0 <= j < m.len() { iter(m, m[j] as int, (k - 1) as nat) } else { j }
}

// one step moves to the next rank (cyclically)
pub proof fn lemma_step(m: Seq<usize>, a: int, re: int, b: int, r: int)
    requires group_ok(m, a, re, b), 0 <= r < b - a,
    ensures
        a <= elem_of(a, re, b, r) < b,
        m[elem_of(a, re, b, r)] as int == elem_of(a, re, b, if r + 1 == b - a { 0 } else { r + 1 }),
{
    let j = elem_of(a, re, b, r);
    if r < re - a {
        if r + 1 < re - a {
            assert(m[j] == j + 1);
        }
    } else {
        if j > re {
            assert(m[j] == j - 1);
        }
    }
}

// rank after k further steps on a cycle of length n
pub open spec fn rot(r: int, k: nat, n: int) -> int
    decreases k
{
    if k == 0 { r } else { rot(if r + 1 == n { 0 } else { r + 1 }, (k - 1) as nat, n) }
}

pub proof fn lemma_rot(r: int, k: nat, n: int)
    requires 0 <= r < n, k <= n,
    ensures rot(r, k, n) == (if r + k < n { r + k } else { r + k - n }), 0 <= rot(r, k, n) < n,
    decreases k
{
    if k > 0 {
        lemma_rot(if r + 1 == n { 0 } else { r + 1 }, (k - 1) as nat, n);
    }
}

pub proof fn lemma_iter(m: Seq<usize>, a: int, re: int, b: int, r: int, k: nat)
    requires group_ok(m, a, re, b), 0 <= r < b - a,
    ensures iter(m, elem_of(a, re, b, r), k) == elem_of(a, re, b, rot(r, k, b - a)),
    decreases k
{
    if k > 0 {
        lemma_step(m, a, re, b, r);
        let r2 = if r + 1 == b - a { 0 } else { r + 1 };
        lemma_iter(m, a, re, b, r2, (k - 1) as nat);
    }
}

pub proof fn lemma_rank_elem(a: int, re: int, b: int, j: int)
    requires a <= re <= b, a <= j < b,
    ensures 0 <= rank_of(a, re, b, j) < b - a, elem_of(a, re, b, rank_of(a, re, b, j)) == j,
{
}

// every index of a group comes back to itself after (group size) steps, and never leaves the group
pub proof fn lemma_cycle(m: Seq<usize>, a: int, re: int, b: int, j: int, k: nat)
    requires group_ok(m, a, re, b), a <= j < b, k <= b - a,
    ensures
        a <= iter(m, j, k) < b,
        iter(m, j, (b - a) as nat) == j,
{
    let n = b - a;
    let r = rank_of(a, re, b, j);
    lemma_rank_elem(a, re, b, j);
    lemma_iter(m, a, re, b, r, k);
    lemma_iter(m, a, re, b, r, n as nat);
    lemma_rot(r, k, n);
    lemma_rot(r, n as nat, n);
    lemma_step(m, a, re, b, rot(r, k, n));
}

// iter(m, j, k + 1) == m[iter(m, j, k)]
pub proof fn lemma_iter_step(m: Seq<usize>, j: int, k: nat)
    requires 0 <= iter(m, j, k) < m.len(),
    ensures iter(m, j, k + 1) == m[iter(m, j, k)] as int,
    decreases k
{
    if k == 0 {
        assert(iter(m, j, 1) == iter(m, m[j] as int, 0));
    } else {
        if 0 <= j < m.len() {
            assert(iter(m, j, k) == iter(m, m[j] as int, (k - 1) as nat));
            lemma_iter_step(m, m[j] as int, (k - 1) as nat);
            assert(iter(m, j, k + 1) == iter(m, m[j] as int, k));
        }
    }
}
