

pub enum LineIntersection
{
    None,
    Point(Coord<R>),
    Overlap(Coord<R>, Coord<R>),
}

fn get_intersection_bounding_box(a1: Coord<R>, a2: Coord<R>, b1: Coord<R>, b2: Coord<R>) -> /*@ (res: @*/ Option<BoundingBox<R>> /*@ ) @*/
    //@ ensures match res {
    //@     // the common box of the two segments' boxes
    //@     Some(bb) => vx(bb.min) == rmax(rmin(vx(a1), vx(a2)), rmin(vx(b1), vx(b2)))
    //@              && vy(bb.min) == rmax(rmin(vy(a1), vy(a2)), rmin(vy(b1), vy(b2)))
    //@              && vx(bb.max) == rmin(rmax(vx(a1), vx(a2)), rmax(vx(b1), vx(b2)))
    //@              && vy(bb.max) == rmin(rmax(vy(a1), vy(a2)), rmax(vy(b1), vy(b2)))
    //@              && vx(bb.min) <= vx(bb.max) && vy(bb.min) <= vy(bb.max),
    //@     // the boxes are disjoint
    //@     None => rmax(rmin(vx(a1), vx(a2)), rmin(vx(b1), vx(b2))) > rmin(rmax(vx(a1), vx(a2)), rmax(vx(b1), vx(b2)))
    //@          || rmax(rmin(vy(a1), vy(a2)), rmin(vy(b1), vy(b2))) > rmin(rmax(vy(a1), vy(a2)), rmax(vy(b1), vy(b2))),
    //@ },
{
    let (a_start_x, a_end_x) = if a1.x < a2.x { (a1.x, a2.x) } else { (a2.x, a1.x) };
    let (a_start_y, a_end_y) = if a1.y < a2.y { (a1.y, a2.y) } else { (a2.y, a1.y) };
    let (b_start_x, b_end_x) = if b1.x < b2.x { (b1.x, b2.x) } else { (b2.x, b1.x) };
    let (b_start_y, b_end_y) = if b1.y < b2.y { (b1.y, b2.y) } else { (b2.y, b1.y) };
    let interval_start_x = a_start_x.max(b_start_x);
    let interval_start_y = a_start_y.max(b_start_y);
    let interval_end_x = a_end_x.min(b_end_x);
    let interval_end_y = a_end_y.min(b_end_y);
    if interval_start_x <= interval_end_x && interval_start_y <= interval_end_y {
        Some(BoundingBox {
            min: Coord {
                x: interval_start_x,
                y: interval_start_y,
            },
            max: Coord {
                x: interval_end_x,
                y: interval_end_y,
            },
        })
    } else {
        None
    }
}

fn constrain_to_bounding_box(p: Coord<R>, bb: BoundingBox<R>) -> /*@ (res: @*/ Coord<R> /*@ ) @*/
    //@ requires vx(bb.min) <= vx(bb.max), vy(bb.min) <= vy(bb.max),
    //@ ensures
    //@     vx(bb.min) <= vx(res) <= vx(bb.max), vy(bb.min) <= vy(res) <= vy(bb.max),
    //@     vx(bb.min) <= vx(p) <= vx(bb.max) ==> vx(res) == vx(p),
    //@     vy(bb.min) <= vy(p) <= vy(bb.max) ==> vy(res) == vy(p),
{
    Coord {
        x: if p.x < bb.min.x {
            bb.min.x
        } else if p.x > bb.max.x {
            bb.max.x
        } else {
            p.x
        },
        y: if p.y < bb.min.y {
            bb.min.y
        } else if p.y > bb.max.y {
            bb.max.y
        } else {
            p.y
        },
    }
}

pub fn intersection(a1: Coord<R>, a2: Coord<R>, b1: Coord<R>, b2: Coord<R>) -> /*@ (res: @*/ LineIntersection /*@ ) @*/
    //@ requires !same_pt(a1, a2), !same_pt(b1, b2),
    //@ ensures
    //@     // exact classification and location (the clamp is the identity in exact arithmetic) ...
    //@     exact_answer(a1, a2, b1, b2, res),
    //@     // ... and every reported point lies in the bounding boxes of both segments
    //@     match res {
    //@         LineIntersection::None => true,
    //@         LineIntersection::Point(p) => in_bb(p, a1, a2) && in_bb(p, b1, b2),
    //@         LineIntersection::Overlap(p, q) => in_bb(p, a1, a2) && in_bb(p, b1, b2) && in_bb(q, a1, a2) && in_bb(q, b1, b2),
    //@     },
{
    let bb = get_intersection_bounding_box(a1, a2, b1, b2);
    if let Some(bb) = bb {
        let inter = intersection_impl(a1, a2, b1, b2);
        match inter {
            LineIntersection::None => LineIntersection::None,
            LineIntersection::Point(p) => /*@ { proof {
                    let (s, t) = choose|s: real, t: real| #[trigger] meet(a1, a2, b1, b2, s, t) && is_at(p, a1, a2, s);
                    lemma_meet_in_boxes(a1, a2, b1, b2, s, t, p);
                } @*/ LineIntersection::Point(constrain_to_bounding_box(p, bb)) /*@ } @*/,
            LineIntersection::Overlap(p1, p2) => {
                //@ proof {
                //@     let (u1, u2) = choose|u1: real, u2: real| {
                //@         &&& 0real <= u1 < u2 <= 1real
                //@         &&& #[trigger] is_at(p1, a1, a2, u1) && #[trigger] is_at(p2, a1, a2, u2)
                //@         &&& forall|s: real, t: real| #[trigger] meet(a1, a2, b1, b2, s, t) ==> u1 <= s <= u2
                //@         &&& forall|s: real| u1 <= s <= u2 ==> #[trigger] on_both(a1, a2, b1, b2, s)
                //@     };
                //@     assert(on_both(a1, a2, b1, b2, u1) && on_both(a1, a2, b1, b2, u2));
                //@     let t1 = choose|t: real| meet(a1, a2, b1, b2, u1, t);
                //@     let t2 = choose|t: real| meet(a1, a2, b1, b2, u2, t);
                //@     lemma_meet_in_boxes(a1, a2, b1, b2, u1, t1, p1);
                //@     lemma_meet_in_boxes(a1, a2, b1, b2, u2, t2, p2);
                //@ }
                /*@ let ov = @*/ LineIntersection::Overlap(constrain_to_bounding_box(p1, bb), constrain_to_bounding_box(p2, bb)) /*@ ;
                proof {
                    let (u1, u2) = choose|u1: real, u2: real| {
                        &&& 0real <= u1 < u2 <= 1real
                        &&& #[trigger] is_at(p1, a1, a2, u1) && #[trigger] is_at(p2, a1, a2, u2)
                        &&& forall|s: real, t: real| #[trigger] meet(a1, a2, b1, b2, s, t) ==> u1 <= s <= u2
                        &&& forall|s: real| u1 <= s <= u2 ==> #[trigger] on_both(a1, a2, b1, b2, s)
                    };
                    if let LineIntersection::Overlap(c1, c2) = ov {
                        assert(is_at(c1, a1, a2, u1) && is_at(c2, a1, a2, u2));
                    }
                }
                ov @*/
            }
        }
    } else {
        //@ proof {
        //@     assert forall|s: real, t: real| !#[trigger] meet(a1, a2, b1, b2, s, t) by {
        //@         if meet(a1, a2, b1, b2, s, t) {
        //@             lemma_seg_in_box(a1, a2, s);
        //@             lemma_seg_in_box(b1, b2, t);
        //@         }
        //@     }
        //@ }
        LineIntersection::None
    }
}

fn intersection_impl(a1: Coord<R>, a2: Coord<R>, b1: Coord<R>, b2: Coord<R>) -> /*@ (res: @*/ LineIntersection /*@ ) @*/
    //@ requires !same_pt(a1, a2), !same_pt(b1, b2),
    //@ ensures exact_answer(a1, a2, b1, b2, res),
{
    // println!("{:?} {:?} {:?} {:?}", a1, a2, b1, b2);
    let va = Coord {
        x: a2.x - a1.x,
        y: a2.y - a1.y,
    };
    let vb = Coord {
        x: b2.x - b1.x,
        y: b2.y - b1.y,
    };
    let e = Coord {
        x: b1.x - a1.x,
        y: b1.y - a1.y,
    };
    let mut kross = cross_product(va, vb);
    let mut sqr_kross = kross * kross;
    let sqr_len_a = dot_product(va, va);
    //@ let ghost k = kross.v@;
    //@ proof {
    //@     assert(k == kross_(a1, a2, b1, b2));
    //@     assert(sqr_kross.v@ > 0real <==> k != 0real) by(nonlinear_arith) requires sqr_kross.v@ == k * k;
    //@ }

    if sqr_kross > R::zero() {
        let s = cross_product(e, vb) / kross;
        //@ let ghost tt = (vx(e) * vy(va) - vy(e) * vx(va)) / k;
        //@ proof {
        //@     assert(s.v@ * k == vx(e) * vy(vb) - vy(e) * vx(vb)) by(nonlinear_arith) requires s.v@ == (vx(e) * vy(vb) - vy(e) * vx(vb)) / k, k != 0real;
        //@     assert(tt * k == vx(e) * vy(va) - vy(e) * vx(va)) by(nonlinear_arith) requires tt == (vx(e) * vy(va) - vy(e) * vx(va)) / k, k != 0real;
        //@     lemma_nonparallel(a1, a2, b1, b2, s.v@, tt); // contract-step: s, t are the parameters of the lines' meeting point
        //@ }
        if s < R::zero() || s > R::one() {
            return LineIntersection::None;
        }
        let t = cross_product(e, va) / kross;
        //@ proof { assert(t.v@ == tt); }
        if t < R::zero() || t > R::one() {
            return LineIntersection::None;
        }
        //@ proof { assert(meet(a1, a2, b1, b2, s.v@, tt)); }

        if s == R::zero() || s == R::one() {
            return LineIntersection::Point(mid_point(a1, s, va));
        }
        if t == R::zero() || t == R::one() {
            return LineIntersection::Point(mid_point(b1, t, vb));
        }

        return LineIntersection::Point(mid_point(a1, s, va));
    }

    kross = cross_product(e, va);
    sqr_kross = kross * kross;
    //@ let ghost k2 = kross.v@;
    //@ proof { assert(sqr_kross.v@ > 0real <==> k2 != 0real) by(nonlinear_arith) requires sqr_kross.v@ == k2 * k2; }

    if sqr_kross > R::zero() {
        //@ proof { lemma_parallel_disjoint(a1, a2, b1, b2); } // contract-step
        return LineIntersection::None;
    }

    //@ let ghost l = sqr_len_a.v@;
    //@ proof {
    //@     lemma_sq_pos(vx(va), vy(va));
    //@     assert(l == ux_(a1, a2) * ux_(a1, a2) + uy_(a1, a2) * uy_(a1, a2));
    //@ }
    let sa = dot_product(va, e) / sqr_len_a;
    let sb = sa + dot_product(va, vb) / sqr_len_a;
    //@ let ghost (sav, sbv) = (sa.v@, sb.v@);
    //@ proof {
    //@     let dv = (vx(va) * vx(vb) + vy(va) * vy(vb)) / l;
    //@     assert(sav * l == vx(va) * vx(e) + vy(va) * vy(e)) by(nonlinear_arith) requires sav == (vx(va) * vx(e) + vy(va) * vy(e)) / l, l != 0real;
    //@     assert(dv * l == vx(va) * vx(vb) + vy(va) * vy(vb)) by(nonlinear_arith) requires dv == (vx(va) * vx(vb) + vy(va) * vy(vb)) / l, l != 0real;
    //@     assert(sbv - sav == dv);
    //@     lemma_collinear(a1, a2, b1, b2, sav, sbv); // contract-step: sa, sb are the parameters of b1, b2 on the first segment
    //@     lemma_collinear_range(a1, a2, b1, b2, sav, sbv);
    //@ }
    let smin = sa.min(sb);
    let smax = sa.max(sb);
    //@ proof { assert(smin.v@ == rmin(sav, sbv) && smax.v@ == rmax(sav, sbv) && smin.v@ < smax.v@); }

    if smin <= R::one() && smax >= R::zero() {
        if smin == R::one() {
            //@ proof {
            //@     assert(on_both(a1, a2, b1, b2, 1real));
            //@     let t = choose|t: real| meet(a1, a2, b1, b2, 1real, t);
            //@     assert(meet(a1, a2, b1, b2, 1real, t));
            //@ }
            return LineIntersection::Point(mid_point(a1, smin, va));
        }
        if smax == R::zero() {
            //@ proof {
            //@     assert(on_both(a1, a2, b1, b2, 0real));
            //@     let t = choose|t: real| meet(a1, a2, b1, b2, 0real, t);
            //@     assert(meet(a1, a2, b1, b2, 0real, t));
            //@ }
            return LineIntersection::Point(mid_point(a1, smax, va));
        }

        return /*@ { let ov = @*/ LineIntersection::Overlap(
            mid_point(a1, smin.max(R::zero()), va),
            mid_point(a1, smax.min(R::one()), va),
        ) /*@ ;
            proof {
                let u1 = rmax(smin.v@, 0real);
                let u2 = rmin(smax.v@, 1real);
                assert(0real <= u1 < u2 <= 1real);
                if let LineIntersection::Overlap(p, q) = ov {
                    assert(is_at(p, a1, a2, u1) && is_at(q, a1, a2, u2)); // contract-step: the overlap's ends
                    assert forall|s: real| u1 <= s <= u2 implies #[trigger] on_both(a1, a2, b1, b2, s) by {}
                    assert forall|s: real, t: real| #[trigger] meet(a1, a2, b1, b2, s, t) implies u1 <= s <= u2 by {}
                }
            }
            ov } @*/;
    }

    LineIntersection::None
}

fn mid_point(p: Coord<R>, s: R, d: Coord<R>) -> /*@ (res: @*/ Coord<R> /*@ ) @*/
    //@ ensures vx(res) == vx(p) + s.v@ * vx(d), vy(res) == vy(p) + s.v@ * vy(d),
{
    Coord {
        x: p.x + s * d.x,
        y: p.y + s * d.y,
    }
}

fn cross_product(a: Coord<R>, b: Coord<R>) -> /*@ (res: @*/ R /*@ ) @*/
    //@ ensures res.v@ == vx(a) * vy(b) - vy(a) * vx(b),
{
    a.x * b.y - a.y * b.x
}

fn dot_product(a: Coord<R>, b: Coord<R>) -> /*@ (res: @*/ R /*@ ) @*/
    //@ ensures res.v@ == vx(a) * vx(b) + vy(a) * vy(b),
{
    a.x * b.x + a.y * b.y
}
