// ======================================================================================
// Prelude of the segint unit (rule X6): an ideal number type R (exact real arithmetic) that replaces the float
// parameter F.  IEEE rounding, NaN, infinities, overflow and underflow are NOT modelled: the contracts of this
// unit say what segment_intersection.rs computes when its arithmetic is exact.
// Coord and BoundingBox are re-declared with the fields of geo_types::Coord / helper::BoundingBox.
// ======================================================================================
#[derive(Clone, Copy)]
pub struct R { pub v: Ghost<real> }
#[derive(Clone, Copy)]
pub struct Coord<T> { pub x: T, pub y: T }
#[derive(Clone, Copy)]
pub struct BoundingBox<T> { pub min: Coord<T>, pub max: Coord<T> }
impl SubSpecImpl<R> for R {
    open spec fn obeys_sub_spec() -> bool { true }
    open spec fn sub_req(self, rhs: R) -> bool { true }
    open spec fn sub_spec(self, rhs: R) -> R { R { v: Ghost(self.v@ - rhs.v@) } }
}
impl Sub for R { type Output = R; #[verifier::external_body] fn sub(self, rhs: R) -> (r: R) { unimplemented!() } }
impl AddSpecImpl<R> for R {
    open spec fn obeys_add_spec() -> bool { true }
    open spec fn add_req(self, rhs: R) -> bool { true }
    open spec fn add_spec(self, rhs: R) -> R { R { v: Ghost(self.v@ + rhs.v@) } }
}
impl Add for R { type Output = R; #[verifier::external_body] fn add(self, rhs: R) -> (r: R) { unimplemented!() } }
impl MulSpecImpl<R> for R {
    open spec fn obeys_mul_spec() -> bool { true }
    open spec fn mul_req(self, rhs: R) -> bool { true }
    open spec fn mul_spec(self, rhs: R) -> R { R { v: Ghost(self.v@ * rhs.v@) } }
}
impl Mul for R { type Output = R; #[verifier::external_body] fn mul(self, rhs: R) -> (r: R) { unimplemented!() } }
impl DivSpecImpl<R> for R {
    open spec fn obeys_div_spec() -> bool { true }
    open spec fn div_req(self, rhs: R) -> bool { rhs.v@ != 0real }
    open spec fn div_spec(self, rhs: R) -> R { R { v: Ghost(self.v@ / rhs.v@) } }
}
impl Div for R { type Output = R; #[verifier::external_body] fn div(self, rhs: R) -> (r: R) { unimplemented!() } }
impl PartialEqSpecImpl for R {
    open spec fn obeys_eq_spec() -> bool { true }
    open spec fn eq_spec(&self, other: &R) -> bool { self.v@ == other.v@ }
}
impl PartialEq for R { #[verifier::external_body] fn eq(&self, other: &R) -> (b: bool) { unimplemented!() } }
impl PartialOrdSpecImpl for R {
    open spec fn obeys_partial_cmp_spec() -> bool { true }
    open spec fn partial_cmp_spec(&self, other: &R) -> Option<core::cmp::Ordering> {
        if self.v@ < other.v@ { Some(core::cmp::Ordering::Less) } else if self.v@ > other.v@ { Some(core::cmp::Ordering::Greater) } else { Some(core::cmp::Ordering::Equal) }
    }
}
impl PartialOrd for R { #[verifier::external_body] fn partial_cmp(&self, other: &R) -> (o: Option<core::cmp::Ordering>) { unimplemented!() } }
impl R {
    #[verifier::external_body] pub fn zero() -> (r: R) ensures r.v@ == 0real { unimplemented!() }
    #[verifier::external_body] pub fn one() -> (r: R) ensures r.v@ == 1real { unimplemented!() }
    #[verifier::external_body] pub fn min(self, o: R) -> (r: R) ensures r.v@ == (if self.v@ <= o.v@ { self.v@ } else { o.v@ }) { unimplemented!() }
    #[verifier::external_body] pub fn max(self, o: R) -> (r: R) ensures r.v@ == (if self.v@ >= o.v@ { self.v@ } else { o.v@ }) { unimplemented!() }
}
