// ======================================================================================
// Prelude of the segint unit (rule X6): an ideal number type R (exact real arithmetic) that replaces the float
// parameter F.  IEEE rounding, NaN, infinities, overflow and underflow are NOT modelled: the contracts of this
// unit say what segment_intersection.rs computes when its arithmetic is exact.
// Coord and BoundingBox are re-declared with the fields of geo_types::Coord / helper::BoundingBox.
// ======================================================================================
#[derive(Clone, Copy)]
pub struct R { pub v: Ghost<real> }
#[derive(Clone, Copy)]
pub struct Coord<T> { pub x: T, pub y: T }
#[derive(Clone, Copy)]
pub struct BoundingBox<T> { pub min: Coord<T>, pub max: Coord<T> }
impl SubSpecImpl<R> for R {
    open spec fn obeys_sub_spec() -> bool { true }
    open spec fn sub_req(self, rhs: R) -> bool { true }
    open spec fn sub_spec(self, rhs: R) -> R { R { v: Ghost(self.v@ - rhs.v@) } }
}
impl Sub for R { type Output = R; #[verifier::external_body] fn sub(self, rhs: R) -> (r: R) { unimplemented!() } }
impl AddSpecImpl<R> for R {
    open spec fn obeys_add_spec() -> bool { true }
    open spec fn add_req(self, rhs: R) -> bool { true }
    open spec fn add_spec(self, rhs: R) -> R { R { v: Ghost(self.v@ + rhs.v@) } }
}
impl Add for R { type Output = R; #[verifier::external_body] fn add(self, rhs: R) -> (r: R) { unimplemented!() } }
impl MulSpecImpl<R> for R {
    open spec fn obeys_mul_spec() -> bool { true }
    open spec fn mul_req(self, rhs: R) -> bool { true }
    open spec fn mul_spec(self, rhs: R) -> R { R { v: Ghost(self.v@ * rhs.v@) } }
}
impl Mul for R { type Output = R; #[verifier::external_body] fn mul(self, rhs: R) -> (r: R) { unimplemented!() } }
impl DivSpecImpl<R> for R {
    open spec fn obeys_div_spec() -> bool { true }
    open spec fn div_req(self, rhs: R) -> bool { rhs.v@ != 0real }
    open spec fn div_spec(self, rhs: R) -> R { R { v: Ghost(self.v@ / rhs.v@) } }
}
impl Div for R { type Output = R; #[verifier::external_body] fn div(self, rhs: R) -> (r: R) { unimplemented!() } }
impl PartialEqSpecImpl for R {
    open spec fn obeys_eq_spec() -> bool { true }
    open spec fn eq_spec(&self, other: &R) -> bool { self.v@ == other.v@ }
}
impl PartialEq for R { #[verifier::external_body] fn eq(&self, other: &R) -> (b: bool) { unimplemented!() } }
impl PartialOrdSpecImpl for R {
    open spec fn obeys_partial_cmp_spec() -> bool { true }
    open spec fn partial_cmp_spec(&self, other: &R) -> Option<core::cmp::Ordering> {
        if self.v@ < other.v@ { Some(core::cmp::Ordering::Less) } else if self.v@ > other.v@ { Some(core::cmp::Ordering::Greater) } else { Some(core::cmp::Ordering::Equal) }
    }
}
impl PartialOrd for R { #[verifier::external_body] fn partial_cmp(&self, other: &R) -> (o: Option<core::cmp::Ordering>) { unimplemented!() } }
impl R {
    #[verifier::external_body] pub fn zero() -> (r: R) ensures r.v@ == 0real { unimplemented!() }
    #[verifier::external_body] pub fn one() -> (r: R) ensures r.v@ == 1real { unimplemented!() }
    #[verifier::external_body] pub fn min(self, o: R) -> (r: R) ensures r.v@ == (if self.v@ <= o.v@ { self.v@ } else { o.v@ }) { unimplemented!() }
    #[verifier::external_body] pub fn max(self, o: R) -> (r: R) ensures r.v@ == (if self.v@ >= o.v@ { self.v@ } else { o.v@ }) { unimplemented!() }
}

// ---- specification vocabulary (exact real geometry) -----------------------------------------------------------------
pub open spec fn vx(c: Coord<R>) -> real { c.x.v@ }
pub open spec fn vy(c: Coord<R>) -> real { c.y.v@ }
pub open spec fn rmin(a: real, b: real) -> real { if a <= b { a } else { b } }
pub open spec fn rmax(a: real, b: real) -> real { if a >= b { a } else { b } }
pub open spec fn same_pt(a: Coord<R>, b: Coord<R>) -> bool { vx(a) == vx(b) && vy(a) == vy(b) }

// the point of segment a1 -> a2 at parameter s
pub open spec fn seg_x(a1: Coord<R>, a2: Coord<R>, s: real) -> real { vx(a1) + s * (vx(a2) - vx(a1)) }
pub open spec fn seg_y(a1: Coord<R>, a2: Coord<R>, s: real) -> real { vy(a1) + s * (vy(a2) - vy(a1)) }

// the two closed segments have a common point, at parameter s on the first and t on the second
pub open spec fn meet(a1: Coord<R>, a2: Coord<R>, b1: Coord<R>, b2: Coord<R>, s: real, t: real) -> bool {
    &&& 0real <= s <= 1real
    &&& 0real <= t <= 1real
    &&& seg_x(a1, a2, s) == seg_x(b1, b2, t)
    &&& seg_y(a1, a2, s) == seg_y(b1, b2, t)
}

// p lies in the bounding box of segment a1 a2
pub open spec fn in_bb(p: Coord<R>, a1: Coord<R>, a2: Coord<R>) -> bool {
    &&& rmin(vx(a1), vx(a2)) <= vx(p) <= rmax(vx(a1), vx(a2))
    &&& rmin(vy(a1), vy(a2)) <= vy(p) <= rmax(vy(a1), vy(a2))
}

pub open spec fn is_at(p: Coord<R>, a1: Coord<R>, a2: Coord<R>, s: real) -> bool {
    vx(p) == seg_x(a1, a2, s) && vy(p) == seg_y(a1, a2, s)
}

// the point at parameter s of the first segment also lies on the second
pub open spec fn on_both(a1: Coord<R>, a2: Coord<R>, b1: Coord<R>, b2: Coord<R>, s: real) -> bool {
    exists|t: real| #[trigger] meet(a1, a2, b1, b2, s, t)
}

// What an exact intersection routine must answer (statement of C16):
//   None          <=> the segments have no common point
//   Point(p)      <=> they have exactly one common point, and it is p
//   Overlap(p, q) <=> their common points are exactly the sub-segment from p to q of positive length
//                     (parameters u1 < u2 on the first segment)
pub open spec fn exact_answer(a1: Coord<R>, a2: Coord<R>, b1: Coord<R>, b2: Coord<R>, res: LineIntersection) -> bool {
    match res {
        LineIntersection::None => forall|s: real, t: real| !#[trigger] meet(a1, a2, b1, b2, s, t),
        LineIntersection::Point(p) => {
            &&& exists|s: real, t: real| #[trigger] meet(a1, a2, b1, b2, s, t) && is_at(p, a1, a2, s)
            &&& forall|s: real, t: real| #[trigger] meet(a1, a2, b1, b2, s, t) ==> is_at(p, a1, a2, s)
        }
        LineIntersection::Overlap(p, q) => exists|u1: real, u2: real| {
            &&& 0real <= u1 < u2 <= 1real
            &&& #[trigger] is_at(p, a1, a2, u1) && #[trigger] is_at(q, a1, a2, u2)
            &&& forall|s: real, t: real| #[trigger] meet(a1, a2, b1, b2, s, t) ==> u1 <= s <= u2
            &&& forall|s: real| u1 <= s <= u2 ==> #[trigger] on_both(a1, a2, b1, b2, s)
        },
    }
}

// ---- algebra (plain reals) ----------------------------------------------------------------------------------------------
// u = direction of the first segment, w = of the second, e = b1 - a1, k = u x w.
// A common point at parameters (s, t) means  s*u - t*w == e.

pub proof fn lemma_cancel(a: real, k: real)
    requires a * k == 0real, k != 0real,
    ensures a == 0real,
{
    assert(a == 0real) by(nonlinear_arith) requires a * k == 0real, k != 0real;
}

// small ring identities (Z3's nonlinear real solver does not terminate on the 8-variable cubic identities below in
// one piece, so they are chained from these)
pub proof fn p_dist(a: real, b: real, c: real)
    ensures (a - b) * c == a * c - b * c, c * (a - b) == c * a - c * b,
{
    assert((a - b) * c == a * c - b * c) by(nonlinear_arith);
    assert(c * (a - b) == c * a - c * b) by(nonlinear_arith);
}

pub proof fn p_assoc(a: real, b: real, c: real)
    ensures (a * b) * c == a * (b * c), (a * b) * c == (a * c) * b, a * b == b * a,
{
    assert((a * b) * c == a * (b * c)) by(nonlinear_arith);
    assert((a * b) * c == (a * c) * b) by(nonlinear_arith);
    assert(a * b == b * a) by(nonlinear_arith);
}

pub proof fn lemma_params_unique(ux: real, uy: real, wx: real, wy: real, ex: real, ey: real, s: real, t: real)
    requires s * ux - t * wx == ex, s * uy - t * wy == ey,
    ensures
        s * (ux * wy - uy * wx) == ex * wy - ey * wx,
        t * (ux * wy - uy * wx) == ex * uy - ey * ux,
{
    // ex*wy - ey*wx
    p_dist(s * ux, t * wx, wy);       // ex*wy == (s*ux)*wy - (t*wx)*wy
    p_dist(s * uy, t * wy, wx);       // ey*wx == (s*uy)*wx - (t*wy)*wx
    p_assoc(t, wx, wy);               // (t*wx)*wy == (t*wy)*wx
    p_assoc(s, ux, wy);               // (s*ux)*wy == s*(ux*wy)
    p_assoc(s, uy, wx);
    p_dist(ux * wy, uy * wx, s);      // s*(ux*wy - uy*wx) == s*(ux*wy) - s*(uy*wx)
    assert(s * (ux * wy - uy * wx) == ex * wy - ey * wx);
    // ex*uy - ey*ux
    p_dist(s * ux, t * wx, uy);       // ex*uy == (s*ux)*uy - (t*wx)*uy
    p_dist(s * uy, t * wy, ux);       // ey*ux == (s*uy)*ux - (t*wy)*ux
    p_assoc(s, ux, uy);               // (s*ux)*uy == (s*uy)*ux
    p_assoc(t, wx, uy);               // (t*wx)*uy == t*(wx*uy)
    p_assoc(t, wy, ux);               // (t*wy)*ux == t*(wy*ux)
    p_assoc(wy, ux, 1real);
    p_assoc(wx, uy, 1real);
    p_assoc(ux, wy, 1real);
    p_assoc(uy, wx, 1real);
    p_dist(ux * wy, uy * wx, t);      // t*(ux*wy - uy*wx) == t*(ux*wy) - t*(uy*wx)
    assert(t * (ux * wy - uy * wx) == ex * uy - ey * ux);
}

pub proof fn lemma_params_exist(ux: real, uy: real, wx: real, wy: real, ex: real, ey: real, k: real, s: real, t: real)
    requires
        k == ux * wy - uy * wx, k != 0real,
        s * k == ex * wy - ey * wx,
        t * k == ex * uy - ey * ux,
    ensures s * ux - t * wx == ex, s * uy - t * wy == ey,
{
    // X := s*ux - t*wx - ex ;  X*k == (s*k)*ux - (t*k)*wx - ex*k == (ex*wy - ey*wx)*ux - (ex*uy - ey*ux)*wx - ex*(ux*wy - uy*wx) == 0
    let x = s * ux - t * wx - ex;
    p_dist(s * ux - t * wx, ex, k);
    p_dist(s * ux, t * wx, k);
    p_assoc(s, ux, k);                // (s*ux)*k == (s*k)*ux
    p_assoc(t, wx, k);                // (t*wx)*k == (t*k)*wx
    assert(x * k == (s * k) * ux - (t * k) * wx - ex * k);
    p_dist(ex * wy, ey * wx, ux);     // (ex*wy - ey*wx)*ux
    p_dist(ex * uy, ey * ux, wx);     // (ex*uy - ey*ux)*wx
    p_dist(ux * wy, uy * wx, ex);     // ex*(ux*wy - uy*wx)
    p_assoc(ex, wy, ux);              // (ex*wy)*ux == ex*(wy*ux)
    p_assoc(ey, wx, ux);              // (ey*wx)*ux == (ey*ux)*wx
    p_assoc(ex, uy, wx);              // (ex*uy)*wx == ex*(uy*wx)
    p_assoc(wy, ux, 1real);
    assert(x * k == 0real);
    lemma_cancel(x, k);
    let y = s * uy - t * wy - ey;
    p_dist(s * uy - t * wy, ey, k);
    p_dist(s * uy, t * wy, k);
    p_assoc(s, uy, k);
    p_assoc(t, wy, k);
    assert(y * k == (s * k) * uy - (t * k) * wy - ey * k);
    p_dist(ex * wy, ey * wx, uy);     // (ex*wy - ey*wx)*uy
    p_dist(ex * uy, ey * ux, wy);     // (ex*uy - ey*ux)*wy
    p_dist(ux * wy, uy * wx, ey);     // ey*(ux*wy - uy*wx)
    p_assoc(ex, wy, uy);              // (ex*wy)*uy == (ex*uy)*wy
    p_assoc(ey, wx, uy);              // (ey*wx)*uy == ey*(wx*uy)
    p_assoc(ey, ux, wy);              // (ey*ux)*wy == ey*(ux*wy)
    p_assoc(wx, uy, 1real);
    assert(y * k == 0real);
    lemma_cancel(y, k);
}

// direction / offset vectors of a configuration
pub open spec fn ux_(a1: Coord<R>, a2: Coord<R>) -> real { vx(a2) - vx(a1) }
pub open spec fn uy_(a1: Coord<R>, a2: Coord<R>) -> real { vy(a2) - vy(a1) }
pub open spec fn kross_(a1: Coord<R>, a2: Coord<R>, b1: Coord<R>, b2: Coord<R>) -> real {
    ux_(a1, a2) * uy_(b1, b2) - uy_(a1, a2) * ux_(b1, b2)
}

// meet <=> parameter equation
pub proof fn lemma_meet_eq(a1: Coord<R>, a2: Coord<R>, b1: Coord<R>, b2: Coord<R>, s: real, t: real)
    ensures
        meet(a1, a2, b1, b2, s, t) <==> (0real <= s <= 1real && 0real <= t <= 1real
            && s * ux_(a1, a2) - t * ux_(b1, b2) == vx(b1) - vx(a1)
            && s * uy_(a1, a2) - t * uy_(b1, b2) == vy(b1) - vy(a1)),
{
}

// non-parallel segments: the supporting lines meet in exactly one parameter pair (s, t)
pub proof fn lemma_nonparallel(a1: Coord<R>, a2: Coord<R>, b1: Coord<R>, b2: Coord<R>, s: real, t: real)
    requires
        kross_(a1, a2, b1, b2) != 0real,
        s * kross_(a1, a2, b1, b2) == (vx(b1) - vx(a1)) * uy_(b1, b2) - (vy(b1) - vy(a1)) * ux_(b1, b2),
        t * kross_(a1, a2, b1, b2) == (vx(b1) - vx(a1)) * uy_(a1, a2) - (vy(b1) - vy(a1)) * ux_(a1, a2),
    ensures
        0real <= s <= 1real && 0real <= t <= 1real ==> meet(a1, a2, b1, b2, s, t),
        seg_x(a1, a2, s) == seg_x(b1, b2, t) && seg_y(a1, a2, s) == seg_y(b1, b2, t),
        forall|s2: real, t2: real| #[trigger] meet(a1, a2, b1, b2, s2, t2) ==> s2 == s && t2 == t,
{
    let (ux, uy, wx, wy) = (ux_(a1, a2), uy_(a1, a2), ux_(b1, b2), uy_(b1, b2));
    let (ex, ey) = (vx(b1) - vx(a1), vy(b1) - vy(a1));
    let k = kross_(a1, a2, b1, b2);
    lemma_params_exist(ux, uy, wx, wy, ex, ey, k, s, t);
    lemma_meet_eq(a1, a2, b1, b2, s, t);
    assert forall|s2: real, t2: real| #[trigger] meet(a1, a2, b1, b2, s2, t2) implies s2 == s && t2 == t by {
        lemma_meet_eq(a1, a2, b1, b2, s2, t2);
        lemma_params_unique(ux, uy, wx, wy, ex, ey, s2, t2);
        assert((s2 - s) * k == 0real) by(nonlinear_arith) requires s2 * k == ex * wy - ey * wx, s * k == ex * wy - ey * wx;
        lemma_cancel(s2 - s, k);
        assert((t2 - t) * k == 0real) by(nonlinear_arith) requires t2 * k == ex * uy - ey * ux, t * k == ex * uy - ey * ux;
        lemma_cancel(t2 - t, k);
    }
}

// parallel but not collinear: no common point
pub proof fn lemma_parallel_disjoint(a1: Coord<R>, a2: Coord<R>, b1: Coord<R>, b2: Coord<R>)
    requires
        kross_(a1, a2, b1, b2) == 0real,
        (vx(b1) - vx(a1)) * uy_(a1, a2) - (vy(b1) - vy(a1)) * ux_(a1, a2) != 0real,
    ensures forall|s: real, t: real| !#[trigger] meet(a1, a2, b1, b2, s, t),
{
    let (ux, uy, wx, wy) = (ux_(a1, a2), uy_(a1, a2), ux_(b1, b2), uy_(b1, b2));
    let (ex, ey) = (vx(b1) - vx(a1), vy(b1) - vy(a1));
    assert forall|s: real, t: real| !#[trigger] meet(a1, a2, b1, b2, s, t) by {
        if meet(a1, a2, b1, b2, s, t) {
            lemma_meet_eq(a1, a2, b1, b2, s, t);
            lemma_params_unique(ux, uy, wx, wy, ex, ey, s, t);
            assert(t * (ux * wy - uy * wx) == 0real) by(nonlinear_arith) requires ux * wy - uy * wx == 0real;
        }
    }
}

pub proof fn p_distp(a: real, b: real, c: real)
    ensures (a + b) * c == a * c + b * c, c * (a + b) == c * a + c * b,
{
    assert((a + b) * c == a * c + b * c) by(nonlinear_arith);
    assert(c * (a + b) == c * a + c * b) by(nonlinear_arith);
}

// a vector (ex, ey) parallel to u = (ux, uy) != 0 is its own projection:  e == ((u.e)/(u.u)) * u
pub proof fn lemma_proj(ux: real, uy: real, ex: real, ey: real, l: real, sa: real)
    requires ex * uy == ey * ux, l == ux * ux + uy * uy, l != 0real, sa * l == ux * ex + uy * ey,
    ensures ex == sa * ux, ey == sa * uy,
{
    // (ex - sa*ux) * l == 0
    p_dist(ex, sa * ux, l);
    p_assoc(sa, ux, l);                       // (sa*ux)*l == (sa*l)*ux
    p_distp(ux * ux, uy * uy, ex);            // ex*l == ex*(ux*ux) + ex*(uy*uy)
    p_distp(ux * ex, uy * ey, ux);            // (sa*l)*ux == (ux*ex)*ux + (uy*ey)*ux
    p_assoc(ux, ex, ux);                      // (ux*ex)*ux == ux*(ex*ux) == (ux*ux)*ex
    p_assoc(ex, ux, ux);
    p_assoc(ux * ux, ex, 1real);
    p_assoc(ex, uy, uy);                      // (ex*uy)*uy == ex*(uy*uy)
    p_assoc(ey, ux, uy);                      // (ey*ux)*uy == (ey*uy)*ux
    p_assoc(uy, ey, 1real);
    p_assoc(uy, ey, ux);
    assert(ex * (ux * ux) == (ux * ex) * ux);
    assert(ex * (uy * uy) == (uy * ey) * ux);
    assert((ex - sa * ux) * l == 0real);
    lemma_cancel(ex - sa * ux, l);
    // (ey - sa*uy) * l == 0
    p_dist(ey, sa * uy, l);
    p_assoc(sa, uy, l);
    p_distp(ux * ux, uy * uy, ey);            // ey*l == ey*(ux*ux) + ey*(uy*uy)
    p_distp(ux * ex, uy * ey, uy);            // (sa*l)*uy == (ux*ex)*uy + (uy*ey)*uy
    p_assoc(uy, ey, uy);
    p_assoc(ey, uy, uy);
    p_assoc(uy * uy, ey, 1real);
    p_assoc(ey, ux, ux);                      // (ey*ux)*ux == ey*(ux*ux)
    p_assoc(ex, uy, ux);                      // (ex*uy)*ux == (ex*ux)*uy
    p_assoc(ux, ex, 1real);
    p_assoc(ux, ex, uy);
    assert(ey * (uy * uy) == (uy * ey) * uy);
    assert(ey * (ux * ux) == (ux * ex) * uy);
    assert((ey - sa * uy) * l == 0real);
    lemma_cancel(ey - sa * uy, l);
}

pub proof fn lemma_sq_pos(ux: real, uy: real)
    requires ux != 0real || uy != 0real,
    ensures ux * ux + uy * uy > 0real,
{
    assert(ux * ux >= 0real) by(nonlinear_arith);
    assert(uy * uy >= 0real) by(nonlinear_arith);
    if ux != 0real { assert(ux * ux > 0real) by(nonlinear_arith) requires ux != 0real; }
    if uy != 0real { assert(uy * uy > 0real) by(nonlinear_arith) requires uy != 0real; }
}

// 0 <= t <= 1  ==>  t*d lies between 0 and d
pub proof fn lemma_scale_between(t: real, d: real)
    requires 0real <= t <= 1real,
    ensures rmin(0real, d) <= t * d <= rmax(0real, d),
{
    assert(rmin(0real, d) <= t * d <= rmax(0real, d)) by(nonlinear_arith) requires 0real <= t <= 1real;
}

// collinear segments: parameters of the second segment's ends on the first are sa and sb = sa + d, and the common
// points are exactly  s == sa + t*d
pub proof fn lemma_collinear(a1: Coord<R>, a2: Coord<R>, b1: Coord<R>, b2: Coord<R>, sa: real, sb: real)
    requires
        !same_pt(a1, a2), !same_pt(b1, b2),
        kross_(a1, a2, b1, b2) == 0real,
        (vx(b1) - vx(a1)) * uy_(a1, a2) - (vy(b1) - vy(a1)) * ux_(a1, a2) == 0real,
        sa * (ux_(a1, a2) * ux_(a1, a2) + uy_(a1, a2) * uy_(a1, a2)) == ux_(a1, a2) * (vx(b1) - vx(a1)) + uy_(a1, a2) * (vy(b1) - vy(a1)),
        (sb - sa) * (ux_(a1, a2) * ux_(a1, a2) + uy_(a1, a2) * uy_(a1, a2)) == ux_(a1, a2) * ux_(b1, b2) + uy_(a1, a2) * uy_(b1, b2),
    ensures
        sa != sb,
        forall|s: real, t: real| 0real <= s <= 1real && 0real <= t <= 1real ==> (#[trigger] meet(a1, a2, b1, b2, s, t) <==> s == sa + t * (sb - sa)),
{
    let (ux, uy, wx, wy) = (ux_(a1, a2), uy_(a1, a2), ux_(b1, b2), uy_(b1, b2));
    let (ex, ey) = (vx(b1) - vx(a1), vy(b1) - vy(a1));
    let l = ux * ux + uy * uy;
    let d = sb - sa;
    lemma_sq_pos(ux, uy);
    lemma_proj(ux, uy, ex, ey, l, sa);
    p_assoc(wx, uy, 1real);
    p_assoc(uy, wx, 1real);
    assert(wx * uy == wy * ux);
    lemma_proj(ux, uy, wx, wy, l, d);
    if d == 0real {
        assert(wx == 0real) by(nonlinear_arith) requires wx == d * ux, d == 0real;
        assert(wy == 0real) by(nonlinear_arith) requires wy == d * uy, d == 0real;
        assert(false);
    }
    assert forall|s: real, t: real| 0real <= s <= 1real && 0real <= t <= 1real implies (#[trigger] meet(a1, a2, b1, b2, s, t) <==> s == sa + t * d) by {
        lemma_meet_eq(a1, a2, b1, b2, s, t);
        let z = s - t * d - sa;
        // s*ux - t*wx - ex == z*ux  and likewise for y
        p_assoc(t, d, ux);                    // (t*d)*ux == t*(d*ux)
        p_assoc(t, d, uy);
        p_dist(s - t * d, sa, ux);
        p_dist(s, t * d, ux);
        p_dist(s - t * d, sa, uy);
        p_dist(s, t * d, uy);
        assert(s * ux - t * wx - ex == z * ux);
        assert(s * uy - t * wy - ey == z * uy);
        if z == 0real {
            assert(z * ux == 0real) by(nonlinear_arith) requires z == 0real;
            assert(z * uy == 0real) by(nonlinear_arith) requires z == 0real;
        } else {
            if ux != 0real { assert(z * ux != 0real) by(nonlinear_arith) requires z != 0real, ux != 0real; }
            if uy != 0real { assert(z * uy != 0real) by(nonlinear_arith) requires z != 0real, uy != 0real; }
        }
    }
}

// on collinear segments the common parameters on the first segment are [0,1] intersected with [smin, smax]
pub proof fn lemma_collinear_range(a1: Coord<R>, a2: Coord<R>, b1: Coord<R>, b2: Coord<R>, sa: real, sb: real)
    requires
        sa != sb,
        forall|s: real, t: real| 0real <= s <= 1real && 0real <= t <= 1real ==> (#[trigger] meet(a1, a2, b1, b2, s, t) <==> s == sa + t * (sb - sa)),
    ensures
        forall|s: real, t: real| #[trigger] meet(a1, a2, b1, b2, s, t) ==> rmin(sa, sb) <= s <= rmax(sa, sb),
        forall|s: real| 0real <= s <= 1real && rmin(sa, sb) <= s <= rmax(sa, sb) ==> #[trigger] on_both(a1, a2, b1, b2, s),
{
    let d = sb - sa;
    assert forall|s: real, t: real| #[trigger] meet(a1, a2, b1, b2, s, t) implies rmin(sa, sb) <= s <= rmax(sa, sb) by {
        lemma_scale_between(t, d);
    }
    assert forall|s: real| 0real <= s <= 1real && rmin(sa, sb) <= s <= rmax(sa, sb) implies #[trigger] on_both(a1, a2, b1, b2, s) by {
        let t = (s - sa) / d;
        assert(t * d == s - sa) by(nonlinear_arith) requires t == (s - sa) / d, d != 0real;
        assert(0real <= t <= 1real) by(nonlinear_arith) requires t * d == s - sa, d != 0real, rmin(sa, sa + d) <= s <= rmax(sa, sa + d);
        assert(meet(a1, a2, b1, b2, s, t));
    }
}

// a point of a segment lies in the segment's bounding box
pub proof fn lemma_seg_in_box(a1: Coord<R>, a2: Coord<R>, s: real)
    requires 0real <= s <= 1real,
    ensures
        rmin(vx(a1), vx(a2)) <= seg_x(a1, a2, s) <= rmax(vx(a1), vx(a2)),
        rmin(vy(a1), vy(a2)) <= seg_y(a1, a2, s) <= rmax(vy(a1), vy(a2)),
{
    lemma_scale_between(s, vx(a2) - vx(a1));
    lemma_scale_between(s, vy(a2) - vy(a1));
}

// a common point lies in both boxes
pub proof fn lemma_meet_in_boxes(a1: Coord<R>, a2: Coord<R>, b1: Coord<R>, b2: Coord<R>, s: real, t: real, p: Coord<R>)
    requires meet(a1, a2, b1, b2, s, t), is_at(p, a1, a2, s),
    ensures in_bb(p, a1, a2), in_bb(p, b1, b2),
{
    lemma_seg_in_box(a1, a2, s);
    lemma_seg_in_box(b1, b2, t);
}
