
// ======================================================================================
// Consequences (C16: "the outcome does not depend on the order in which the two segments are given")
// ======================================================================================
pub proof fn lemma_meet_symmetric(a1: Coord<R>, a2: Coord<R>, b1: Coord<R>, b2: Coord<R>, s: real, t: real)
    ensures
        meet(a1, a2, b1, b2, s, t) <==> meet(b1, b2, a1, a2, t, s),
        meet(a1, a2, b1, b2, s, t) <==> meet(a2, a1, b1, b2, 1real - s, t),
{
    assert(seg_x(a2, a1, 1real - s) == seg_x(a1, a2, s)) by(nonlinear_arith)
        requires seg_x(a2, a1, 1real - s) == vx(a2) + (1real - s) * (vx(a1) - vx(a2)), seg_x(a1, a2, s) == vx(a1) + s * (vx(a2) - vx(a1));
    assert(seg_y(a2, a1, 1real - s) == seg_y(a1, a2, s)) by(nonlinear_arith)
        requires seg_y(a2, a1, 1real - s) == vy(a2) + (1real - s) * (vy(a1) - vy(a2)), seg_y(a1, a2, s) == vy(a1) + s * (vy(a2) - vy(a1));
}

// two exact answers for the same pair, given in either order, agree: same classification, and the same point
pub proof fn lemma_answer_order_independent(a1: Coord<R>, a2: Coord<R>, b1: Coord<R>, b2: Coord<R>, r1: LineIntersection, r2: LineIntersection)
    requires !same_pt(a1, a2), !same_pt(b1, b2), exact_answer(a1, a2, b1, b2, r1), exact_answer(b1, b2, a1, a2, r2),
    ensures
        (r1 is None) == (r2 is None), (r1 is Point) == (r2 is Point), (r1 is Overlap) == (r2 is Overlap),
        r1 is Point ==> same_pt(r1->Point_0, r2->Point_0),
{
    assert forall|s: real, t: real| meet(a1, a2, b1, b2, s, t) <==> meet(b1, b2, a1, a2, t, s) by {
        lemma_meet_symmetric(a1, a2, b1, b2, s, t);
    }
    match r1 {
        LineIntersection::None => {
            match r2 {
                LineIntersection::None => {}
                LineIntersection::Point(p) => {
                    let (s, t) = choose|s: real, t: real| #[trigger] meet(b1, b2, a1, a2, s, t) && is_at(p, b1, b2, s);
                    assert(meet(a1, a2, b1, b2, t, s));
                }
                LineIntersection::Overlap(p, q) => {
                    let (u1, u2) = choose|u1: real, u2: real| {
                        &&& 0real <= u1 < u2 <= 1real
                        &&& #[trigger] is_at(p, b1, b2, u1) && #[trigger] is_at(q, b1, b2, u2)
                        &&& forall|s: real, t: real| #[trigger] meet(b1, b2, a1, a2, s, t) ==> u1 <= s <= u2
                        &&& forall|s: real| u1 <= s <= u2 ==> #[trigger] on_both(b1, b2, a1, a2, s)
                    };
                    assert(on_both(b1, b2, a1, a2, u1));
                    let t = choose|t: real| meet(b1, b2, a1, a2, u1, t);
                    assert(meet(a1, a2, b1, b2, t, u1));
                }
            }
        }
        LineIntersection::Point(p) => {
            let (s, t) = choose|s: real, t: real| #[trigger] meet(a1, a2, b1, b2, s, t) && is_at(p, a1, a2, s);
            assert(meet(b1, b2, a1, a2, t, s));
            match r2 {
                LineIntersection::None => {}
                LineIntersection::Point(p2) => {
                    assert(is_at(p2, b1, b2, t));
                }
                LineIntersection::Overlap(p2, q2) => {
                    let (u1, u2) = choose|u1: real, u2: real| {
                        &&& 0real <= u1 < u2 <= 1real
                        &&& #[trigger] is_at(p2, b1, b2, u1) && #[trigger] is_at(q2, b1, b2, u2)
                        &&& forall|s: real, t: real| #[trigger] meet(b1, b2, a1, a2, s, t) ==> u1 <= s <= u2
                        &&& forall|s: real| u1 <= s <= u2 ==> #[trigger] on_both(b1, b2, a1, a2, s)
                    };
                    // two different common points contradict uniqueness: their images on a1 a2 are one point p
                    assert(on_both(b1, b2, a1, a2, u1) && on_both(b1, b2, a1, a2, u2));
                    let t1 = choose|t: real| meet(b1, b2, a1, a2, u1, t);
                    let t2 = choose|t: real| meet(b1, b2, a1, a2, u2, t);
                    assert(meet(a1, a2, b1, b2, t1, u1) && meet(a1, a2, b1, b2, t2, u2));
                    assert(is_at(p, a1, a2, t1) && is_at(p, a1, a2, t2));
                    // so b(u1) == b(u2) although u1 != u2: impossible on a non-degenerate segment
                    assert(seg_x(b1, b2, u1) == seg_x(b1, b2, u2) && seg_y(b1, b2, u1) == seg_y(b1, b2, u2));
                    assert((u1 - u2) * (vx(b2) - vx(b1)) == 0real) by(nonlinear_arith)
                        requires vx(b1) + u1 * (vx(b2) - vx(b1)) == vx(b1) + u2 * (vx(b2) - vx(b1));
                    assert((u1 - u2) * (vy(b2) - vy(b1)) == 0real) by(nonlinear_arith)
                        requires vy(b1) + u1 * (vy(b2) - vy(b1)) == vy(b1) + u2 * (vy(b2) - vy(b1));
                    if vx(b1) != vx(b2) {
                        lemma_cancel(u1 - u2, vx(b2) - vx(b1));
                    } else if vy(b1) != vy(b2) {
                        lemma_cancel(u1 - u2, vy(b2) - vy(b1));
                    }
                }
            }
        }
        LineIntersection::Overlap(p, q) => {
            let (u1, u2) = choose|u1: real, u2: real| {
                &&& 0real <= u1 < u2 <= 1real
                &&& #[trigger] is_at(p, a1, a2, u1) && #[trigger] is_at(q, a1, a2, u2)
                &&& forall|s: real, t: real| #[trigger] meet(a1, a2, b1, b2, s, t) ==> u1 <= s <= u2
                &&& forall|s: real| u1 <= s <= u2 ==> #[trigger] on_both(a1, a2, b1, b2, s)
            };
            assert(on_both(a1, a2, b1, b2, u1) && on_both(a1, a2, b1, b2, u2));
            let t1 = choose|t: real| meet(a1, a2, b1, b2, u1, t);
            let t2 = choose|t: real| meet(a1, a2, b1, b2, u2, t);
            assert(meet(b1, b2, a1, a2, t1, u1) && meet(b1, b2, a1, a2, t2, u2));
            match r2 {
                LineIntersection::None => {}
                LineIntersection::Point(p2) => {
                    assert(is_at(p2, b1, b2, t1) && is_at(p2, b1, b2, t2));
                    assert(seg_x(a1, a2, u1) == seg_x(a1, a2, u2) && seg_y(a1, a2, u1) == seg_y(a1, a2, u2));
                    assert((u1 - u2) * (vx(a2) - vx(a1)) == 0real) by(nonlinear_arith)
                        requires vx(a1) + u1 * (vx(a2) - vx(a1)) == vx(a1) + u2 * (vx(a2) - vx(a1));
                    assert((u1 - u2) * (vy(a2) - vy(a1)) == 0real) by(nonlinear_arith)
                        requires vy(a1) + u1 * (vy(a2) - vy(a1)) == vy(a1) + u2 * (vy(a2) - vy(a1));
                    if vx(a1) != vx(a2) {
                        lemma_cancel(u1 - u2, vx(a2) - vx(a1));
                    } else if vy(a1) != vy(a2) {
                        lemma_cancel(u1 - u2, vy(a2) - vy(a1));
                    }
                }
                LineIntersection::Overlap(p2, q2) => {}
            }
        }
    }
}

// ---- non-vacuity: the precondition is satisfiable and the contract is usable -----------------------------------------------
fn client_nonvacuity() {
    let a1 = Coord { x: R::zero(), y: R::zero() };
    let a2 = Coord { x: R::one(), y: R::one() };
    let b1 = Coord { x: R::zero(), y: R::one() };
    let b2 = Coord { x: R::one(), y: R::zero() };
    let r = intersection(a1, a2, b1, b2);
    proof {
        let h = 1real / 2real;
        assert(h + h == 1real && 0real <= h <= 1real);
        assert(meet(a1, a2, b1, b2, h, h)) by {
            assert(seg_x(a1, a2, h) == h && seg_y(a1, a2, h) == h && seg_x(b1, b2, h) == h && seg_y(b1, b2, h) == 1real - h) by(nonlinear_arith)
                requires vx(a1) == 0real, vy(a1) == 0real, vx(a2) == 1real, vy(a2) == 1real, vx(b1) == 0real, vy(b1) == 1real, vx(b2) == 1real, vy(b2) == 0real,
                    seg_x(a1, a2, h) == vx(a1) + h * (vx(a2) - vx(a1)), seg_y(a1, a2, h) == vy(a1) + h * (vy(a2) - vy(a1)),
                    seg_x(b1, b2, h) == vx(b1) + h * (vx(b2) - vx(b1)), seg_y(b1, b2, h) == vy(b1) + h * (vy(b2) - vy(b1));
        }
    }
    assert(!(r is None));     // the diagonals of the unit square cross
}

// reversing the direction of the first segment does not change the classification, nor the point
pub proof fn lemma_answer_direction_independent(a1: Coord<R>, a2: Coord<R>, b1: Coord<R>, b2: Coord<R>, r1: LineIntersection, r2: LineIntersection)
    requires !same_pt(a1, a2), !same_pt(b1, b2), exact_answer(a1, a2, b1, b2, r1), exact_answer(a2, a1, b1, b2, r2),
    ensures
        (r1 is None) == (r2 is None), (r1 is Point) == (r2 is Point), (r1 is Overlap) == (r2 is Overlap),
        r1 is Point ==> same_pt(r1->Point_0, r2->Point_0),
{
    // meet(a1,a2,b,s,t) <==> meet(a2,a1,b,1-s,t), and the two parametrisations name the same point
    assert forall|s: real, t: real| #![trigger meet(a1, a2, b1, b2, s, t)] meet(a1, a2, b1, b2, s, t) <==> meet(a2, a1, b1, b2, 1real - s, t) by {
        lemma_meet_symmetric(a1, a2, b1, b2, s, t);
    }
    assert forall|s: real, t: real| #![trigger meet(a2, a1, b1, b2, s, t)] meet(a2, a1, b1, b2, s, t) <==> meet(a1, a2, b1, b2, 1real - s, t) by {
        lemma_meet_symmetric(a1, a2, b1, b2, 1real - s, t);
        assert(1real - (1real - s) == s);
    }
    assert forall|p: Coord<R>, s: real| is_at(p, a1, a2, s) <==> is_at(p, a2, a1, 1real - s) by {
        assert(seg_x(a2, a1, 1real - s) == seg_x(a1, a2, s)) by(nonlinear_arith)
            requires seg_x(a2, a1, 1real - s) == vx(a2) + (1real - s) * (vx(a1) - vx(a2)), seg_x(a1, a2, s) == vx(a1) + s * (vx(a2) - vx(a1));
        assert(seg_y(a2, a1, 1real - s) == seg_y(a1, a2, s)) by(nonlinear_arith)
            requires seg_y(a2, a1, 1real - s) == vy(a2) + (1real - s) * (vy(a1) - vy(a2)), seg_y(a1, a2, s) == vy(a1) + s * (vy(a2) - vy(a1));
    }
    // a witness of a common point for one direction is one for the other
    match r1 {
        LineIntersection::None => {
            match r2 {
                LineIntersection::None => {}
                LineIntersection::Point(p) => {
                    let (s, t) = choose|s: real, t: real| #[trigger] meet(a2, a1, b1, b2, s, t) && is_at(p, a2, a1, s);
                    assert(meet(a1, a2, b1, b2, 1real - s, t));
                }
                LineIntersection::Overlap(p, q) => {
                    let (u1, u2) = choose|u1: real, u2: real| {
                        &&& 0real <= u1 < u2 <= 1real
                        &&& #[trigger] is_at(p, a2, a1, u1) && #[trigger] is_at(q, a2, a1, u2)
                        &&& forall|s: real, t: real| #[trigger] meet(a2, a1, b1, b2, s, t) ==> u1 <= s <= u2
                        &&& forall|s: real| u1 <= s <= u2 ==> #[trigger] on_both(a2, a1, b1, b2, s)
                    };
                    assert(on_both(a2, a1, b1, b2, u1));
                    let t = choose|t: real| meet(a2, a1, b1, b2, u1, t);
                    assert(meet(a1, a2, b1, b2, 1real - u1, t));
                }
            }
        }
        LineIntersection::Point(p) => {
            let (s, t) = choose|s: real, t: real| #[trigger] meet(a1, a2, b1, b2, s, t) && is_at(p, a1, a2, s);
            assert(meet(a2, a1, b1, b2, 1real - s, t));
            match r2 {
                LineIntersection::None => {}
                LineIntersection::Point(p2) => {
                    assert(is_at(p2, a2, a1, 1real - s));
                    assert(is_at(p, a2, a1, 1real - s));
                }
                LineIntersection::Overlap(p2, q2) => {
                    let (u1, u2) = choose|u1: real, u2: real| {
                        &&& 0real <= u1 < u2 <= 1real
                        &&& #[trigger] is_at(p2, a2, a1, u1) && #[trigger] is_at(q2, a2, a1, u2)
                        &&& forall|s: real, t: real| #[trigger] meet(a2, a1, b1, b2, s, t) ==> u1 <= s <= u2
                        &&& forall|s: real| u1 <= s <= u2 ==> #[trigger] on_both(a2, a1, b1, b2, s)
                    };
                    // both ends of the overlap are common points, hence equal to the unique common point p: u1 == u2
                    assert(on_both(a2, a1, b1, b2, u1) && on_both(a2, a1, b1, b2, u2));
                    let t1 = choose|t: real| meet(a2, a1, b1, b2, u1, t);
                    let t2 = choose|t: real| meet(a2, a1, b1, b2, u2, t);
                    assert(meet(a1, a2, b1, b2, 1real - u1, t1) && meet(a1, a2, b1, b2, 1real - u2, t2));
                    assert(is_at(p, a1, a2, 1real - u1) && is_at(p, a1, a2, 1real - u2));
                    assert(((1real - u1) - (1real - u2)) * (vx(a2) - vx(a1)) == 0real) by(nonlinear_arith)
                        requires vx(a1) + (1real - u1) * (vx(a2) - vx(a1)) == vx(a1) + (1real - u2) * (vx(a2) - vx(a1));
                    assert(((1real - u1) - (1real - u2)) * (vy(a2) - vy(a1)) == 0real) by(nonlinear_arith)
                        requires vy(a1) + (1real - u1) * (vy(a2) - vy(a1)) == vy(a1) + (1real - u2) * (vy(a2) - vy(a1));
                    if vx(a1) != vx(a2) {
                        lemma_cancel((1real - u1) - (1real - u2), vx(a2) - vx(a1));
                    } else {
                        lemma_cancel((1real - u1) - (1real - u2), vy(a2) - vy(a1));
                    }
                }
            }
        }
        LineIntersection::Overlap(p, q) => {
            let (u1, u2) = choose|u1: real, u2: real| {
                &&& 0real <= u1 < u2 <= 1real
                &&& #[trigger] is_at(p, a1, a2, u1) && #[trigger] is_at(q, a1, a2, u2)
                &&& forall|s: real, t: real| #[trigger] meet(a1, a2, b1, b2, s, t) ==> u1 <= s <= u2
                &&& forall|s: real| u1 <= s <= u2 ==> #[trigger] on_both(a1, a2, b1, b2, s)
            };
            assert(on_both(a1, a2, b1, b2, u1) && on_both(a1, a2, b1, b2, u2));
            let t1 = choose|t: real| meet(a1, a2, b1, b2, u1, t);
            let t2 = choose|t: real| meet(a1, a2, b1, b2, u2, t);
            assert(meet(a2, a1, b1, b2, 1real - u1, t1) && meet(a2, a1, b1, b2, 1real - u2, t2));
            match r2 {
                LineIntersection::None => {}
                LineIntersection::Point(p2) => {
                    assert(is_at(p2, a2, a1, 1real - u1) && is_at(p2, a2, a1, 1real - u2));
                    assert(((1real - u1) - (1real - u2)) * (vx(a1) - vx(a2)) == 0real) by(nonlinear_arith)
                        requires vx(a2) + (1real - u1) * (vx(a1) - vx(a2)) == vx(a2) + (1real - u2) * (vx(a1) - vx(a2));
                    assert(((1real - u1) - (1real - u2)) * (vy(a1) - vy(a2)) == 0real) by(nonlinear_arith)
                        requires vy(a2) + (1real - u1) * (vy(a1) - vy(a2)) == vy(a2) + (1real - u2) * (vy(a1) - vy(a2));
                    if vx(a1) != vx(a2) {
                        lemma_cancel((1real - u1) - (1real - u2), vx(a1) - vx(a2));
                    } else {
                        lemma_cancel((1real - u1) - (1real - u2), vy(a1) - vy(a2));
                    }
                }
                LineIntersection::Overlap(p2, q2) => {}
            }
        }
    }
}
