pub struct Node<K, V> {
    pub key: K,
    pub value: V,
    pub left: Option<Box<Node<K, V>>>,
    pub right: Option<Box<Node<K, V>>>,
}

impl<K, V> Node<K, V> {
    pub fn new_boxed(k: K, v: V, l: Option<Box<Node<K, V>>>, r: Option<Box<Node<K, V>>>) -> Box<Node<K, V>> {
        Box::new(Node {
            key: k,
            value: v,
            left: l,
            right: r,
        })
    }

    pub fn pop_left(&mut self) -> Option<Box<Node<K, V>>> {
        self.left.take()
    }

    pub fn pop_right(&mut self) -> Option<Box<Node<K, V>>> {
        self.right.take()
    }
}
