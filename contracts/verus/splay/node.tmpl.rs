pub struct Node<K, V> {
    pub key: K,
    pub value: V,
    pub left: Option<Box<Node<K, V>>>,
    pub right: Option<Box<Node<K, V>>>,
}

impl<K, V> Node<K, V> {
    pub fn new_boxed(k: K, v: V, l: Option<Box<Node<K, V>>>, r: Option<Box<Node<K, V>>>) -> /*@ (res: @*/ Box<Node<K, V>> /*@ ) @*/
    //@ ensures res.key == k, res.value == v, res.left == l, res.right == r,
    {
        Box::new(Node {
            key: k,
            value: v,
            left: l,
            right: r,
        })
    }

    pub fn pop_left(&mut self) -> /*@ (res: @*/ Option<Box<Node<K, V>>> /*@ ) @*/
    //@ ensures res == old(self).left, final(self).left.is_none(), final(self).right == old(self).right,
    //@         final(self).key == old(self).key, final(self).value == old(self).value,
    {
        self.left.take()
    }

    pub fn pop_right(&mut self) -> /*@ (res: @*/ Option<Box<Node<K, V>>> /*@ ) @*/
    //@ ensures res == old(self).right, final(self).right.is_none(), final(self).left == old(self).left,
    //@         final(self).key == old(self).key, final(self).value == old(self).value,
    {
        self.right.take()
    }
}
