

pub struct SplaySet<T, C>
where
    C: Fn(&T, &T) -> Ordering,
{
    tree: SplayTree<T, (), C>,
}

impl<T, C> SplaySet<T, C>
where
    C: Fn(&T, &T) -> Ordering,
{
    pub fn new(comparator: C) -> /*@ (res: @*/ SplaySet<T, C> /*@ ) @*/
    //@ ensures res.view() == Seq::<(T, ())>::empty(), res.cmp() == comparator, cmp_ok(comparator) ==> res.wf(),
    {
        SplaySet {
            tree: SplayTree::new(comparator),
        }
    }

    pub fn len(&self) -> /*@ (res: @*/ usize /*@ ) @*/
    //@ ensures res == self.t().count(),
    {
        self.tree.len()
    }
    pub fn is_empty(&self) -> /*@ (res: @*/ bool /*@ ) @*/
    //@ ensures res == (self.t().count() == 0),
    {
        self.len() == 0
    }
    pub fn clear(&mut self)
    //@ ensures final(self).view() == Seq::<(T, ())>::empty(), final(self).t().count() == 0, final(self).cmp() == old(self).cmp(),
    //@         cmp_ok(old(self).cmp()) ==> final(self).wf(),
    {
        self.tree.clear()
    }

    pub fn contains(&mut self, t: &T) -> /*@ (res: @*/ bool /*@ ) @*/
    //@ requires old(self).wf(),
    //@ ensures
    //@     final(self).view() == old(self).view(), final(self).t().count() == old(self).t().count(),
    //@     final(self).cmp() == old(self).cmp(),
    //@     res == (exists|i: int| #[trigger] eq_at(old(self).cmp(), old(self).view(), *t, i)),
    {
        self.tree.contains(t)
    }

    pub fn find(&mut self, t: &T) -> /*@ (res: @*/ Option<&T> /*@ ) @*/
    //@ requires old(self).wf(),
    //@ ensures
    //@     final(self).view() == old(self).view(), final(self).t().count() == old(self).t().count(),
    //@     final(self).cmp() == old(self).cmp(),
    //@     match res {
    //@         Some(k) => exists|i: int| #[trigger] eq_at(old(self).cmp(), old(self).view(), *t, i) && *k == old(self).view()[i].0,
    //@         None => no_eq(old(self).cmp(), old(self).view(), *t),
    //@     },
    {
        //@ let ghost c = self.tree.cmp();
        //@ let ghost s = self.tree.view();
        /*@ let r = @*/ self.tree.find_key(t) /*@ ;
        proof {
            if let Some(k) = r {
                let i = choose|i: int| #[trigger] eq_at(c, s, *t, i) && *k == s[i].0;
                assert(eq_at(c, s, *t, i) && *k == s[i].0);
                assert(c == old(self).cmp() && s == old(self).view());
                assert(eq_at(old(self).cmp(), old(self).view(), *t, i) && *k == old(self).view()[i].0);
            }
        }
        r @*/
    }

    pub fn next(&mut self, t: &T) -> /*@ (res: @*/ Option<&T> /*@ ) @*/
    //@ requires old(self).wf(),
    //@ ensures
    //@     final(self).view() == old(self).view(), final(self).t().count() == old(self).t().count(),
    //@     final(self).cmp() == old(self).cmp(),
    //@     match res {
    //@         Some(k) => exists|i: int| #[trigger] succ_at(old(self).cmp(), old(self).view(), *t, i) && old(self).view()[i].0 == *k,
    //@         None => no_succ(old(self).cmp(), old(self).view(), *t),
    //@     },
    {
        //@ let ghost c = self.tree.cmp();
        //@ let ghost s = self.tree.view();
        /*@ let r = @*/ self.tree.next(t).map(|kv /*@ : (&T, &()) @*/| /*@ -> (r: &T) ensures r == kv.0, { @*/ kv.0 /*@ } @*/) /*@ ;
        proof {
            assert(c == old(self).cmp() && s == old(self).view());
            if let Some(k) = r {
                let i = choose|i: int| #[trigger] succ_at(c, s, *t, i) && s[i].0 == *k;
                assert(succ_at(c, s, *t, i) && s[i].0 == *k);
                assert(succ_at(old(self).cmp(), old(self).view(), *t, i) && old(self).view()[i].0 == *k);
            }
        }
        r @*/
    }

    pub fn prev(&mut self, t: &T) -> /*@ (res: @*/ Option<&T> /*@ ) @*/
    //@ requires old(self).wf(),
    //@ ensures
    //@     final(self).view() == old(self).view(), final(self).t().count() == old(self).t().count(),
    //@     final(self).cmp() == old(self).cmp(),
    //@     match res {
    //@         Some(k) => exists|i: int| #[trigger] pred_at(old(self).cmp(), old(self).view(), *t, i) && old(self).view()[i].0 == *k,
    //@         None => no_pred(old(self).cmp(), old(self).view(), *t),
    //@     },
    {
        //@ let ghost c = self.tree.cmp();
        //@ let ghost s = self.tree.view();
        /*@ let r = @*/ self.tree.prev(t).map(|kv /*@ : (&T, &()) @*/| /*@ -> (r: &T) ensures r == kv.0, { @*/ kv.0 /*@ } @*/) /*@ ;
        proof {
            assert(c == old(self).cmp() && s == old(self).view());
            if let Some(k) = r {
                let i = choose|i: int| #[trigger] pred_at(c, s, *t, i) && s[i].0 == *k;
                assert(pred_at(c, s, *t, i) && s[i].0 == *k);
                assert(pred_at(old(self).cmp(), old(self).view(), *t, i) && old(self).view()[i].0 == *k);
            }
        }
        r @*/
    }

    pub fn insert(&mut self, t: T) -> /*@ (res: @*/ bool /*@ ) @*/
    //@ requires old(self).wf(), old(self).t().count() < usize::MAX,
    //@ ensures
    //@     final(self).wf(), final(self).cmp() == old(self).cmp(),
    //@     // true: t was absent and is now spliced in; false: an Equal element was there and is kept
    //@     res ==> no_eq(old(self).cmp(), old(self).view(), t)
    //@             && (exists|p: int| 0 <= p <= old(self).view().len() && final(self).view() == #[trigger] seq_ins(old(self).view(), p, (t, ())))
    //@             && final(self).t().count() == old(self).t().count() + 1,
    //@     !res ==> (exists|i: int| #[trigger] eq_at(old(self).cmp(), old(self).view(), t, i))
    //@             && final(self).view() == old(self).view() && final(self).t().count() == old(self).t().count(),
    {
        //@ let ghost c = self.tree.cmp();
        //@ let ghost s = self.tree.view();
        //@ let ghost tt = t;
        /*@ let r = @*/ self.tree.insert(t, ()).is_none() /*@ ;
        proof {
            if r {
                let p = choose|p: int| 0 <= p <= s.len() && self.tree.view() == #[trigger] seq_ins(s, p, (tt, ()));
                assert(0 <= p <= s.len() && self.tree.view() == seq_ins(s, p, (tt, ())));
                assert(c == old(self).cmp() && s == old(self).view());
                assert(0 <= p <= old(self).view().len() && self.view() == seq_ins(old(self).view(), p, (tt, ())));
            } else {
                let i = choose|i: int| #[trigger] eq_at(c, s, tt, i) && self.tree.view() == s.update(i, (s[i].0, ()));
                assert(eq_at(c, s, tt, i));
                assert(s.update(i, (s[i].0, ())) =~= s);
                assert(c == old(self).cmp() && s == old(self).view());
                assert(eq_at(old(self).cmp(), old(self).view(), tt, i));
            }
        }
        r @*/
    }

    pub fn remove(&mut self, t: &T) -> /*@ (res: @*/ bool /*@ ) @*/
    //@ requires old(self).wf(),
    //@ ensures
    //@     final(self).wf(), final(self).cmp() == old(self).cmp(),
    //@     res ==> (exists|i: int| #[trigger] eq_at(old(self).cmp(), old(self).view(), *t, i) && final(self).view() == seq_del(old(self).view(), i))
    //@             && final(self).t().count() == old(self).t().count() - 1,
    //@     !res ==> no_eq(old(self).cmp(), old(self).view(), *t)
    //@             && final(self).view() == old(self).view() && final(self).t().count() == old(self).t().count(),
    {
        //@ let ghost c = self.tree.cmp();
        //@ let ghost s = self.tree.view();
        /*@ let r = @*/ self.tree.remove(t).is_some() /*@ ;
        proof {
            if r {
                let i = choose|i: int| #[trigger] eq_at(c, s, *t, i) && self.tree.view() == seq_del(s, i);
                assert(eq_at(c, s, *t, i) && self.tree.view() == seq_del(s, i));
                assert(c == old(self).cmp() && s == old(self).view());
                assert(eq_at(old(self).cmp(), old(self).view(), *t, i) && self.view() == seq_del(old(self).view(), i));
            }
        }
        r @*/
    }

    pub fn min(&self) -> /*@ (res: @*/ Option<&T> /*@ ) @*/
    //@ ensures match res {
    //@     Some(k) => self.view().len() > 0 && self.view()[0].0 == *k,
    //@     None => self.view().len() == 0,
    //@ },
    {
        self.tree.min()
    }

    pub fn max(&self) -> /*@ (res: @*/ Option<&T> /*@ ) @*/
    //@ ensures match res {
    //@     Some(k) => self.view().len() > 0 && self.view()[self.view().len() - 1].0 == *k,
    //@     None => self.view().len() == 0,
    //@ },
    {
        self.tree.max()
    }
}

impl<T, C> SplaySet<T, C>
where
    C: Fn(&T, &T) -> Ordering,
{

    fn into_iter(self) -> /*@ (res: @*/ SetIntoIter<T> /*@ ) @*/
    //@ ensures res.it().seq() == self.view(), res.it().rem() == self.t().count(), self.wf() ==> res.it().wf(),
    { let mut this = self;
        SetIntoIter {
            inner: this.tree.into_iter(),
        }
    }
}

pub struct SetIntoIter<T> {
    inner: IntoIter<T, ()>,
}

impl<T> SetIntoIter<T> {
    fn next(&mut self) -> /*@ (res: @*/ Option<T> /*@ ) @*/
    //@ requires old(self).it().wf(),
    //@ ensures
    //@     final(self).it().wf(),
    //@     match res {
    //@         Some(k) => old(self).it().seq().len() > 0 && k == old(self).it().seq()[0].0
    //@                     && final(self).it().seq() == old(self).it().seq().subrange(1, old(self).it().seq().len() as int),
    //@         None => old(self).it().seq().len() == 0 && final(self).it().seq() == old(self).it().seq(),
    //@     },
    {
        self.inner.next().map(|p /*@ : (T, ()) @*/| /*@ -> (r: T) ensures r == p.0, { @*/ p.0 /*@ } @*/)
    }
    fn size_hint(&self) -> /*@ (res: @*/ (usize, Option<usize>) /*@ ) @*/
    //@ ensures res.0 == self.it().rem(), res.1 == Some(self.it().rem()),
    {
        self.inner.size_hint()
    }
}

impl<T> SetIntoIter<T> {
    fn next_back(&mut self) -> /*@ (res: @*/ Option<T> /*@ ) @*/
    //@ requires old(self).it().wf(),
    //@ ensures
    //@     final(self).it().wf(),
    //@     match res {
    //@         Some(k) => old(self).it().seq().len() > 0 && k == old(self).it().seq()[old(self).it().seq().len() - 1].0
    //@                     && final(self).it().seq() == old(self).it().seq().subrange(0, old(self).it().seq().len() - 1),
    //@         None => old(self).it().seq().len() == 0 && final(self).it().seq() == old(self).it().seq(),
    //@     },
    {
        self.inner.next_back().map(|cp__ /*@ : (T, ()) @*/| /*@ -> (r: T) ensures r == cp__.0, @*/ { let (k, _) = cp__; k })
    }
}
