

pub struct SplayTree<K, V, C>
where
    C: Fn(&K, &K) -> Ordering,
{
    comparator: C,
    root: Option<Box<Node<K, V>>>,
    size: usize,
}

impl<K, V, C> SplayTree<K, V, C>
where
    C: Fn(&K, &K) -> Ordering,
{
    pub fn new(comparator: C) -> /*@ (res: @*/ SplayTree<K, V, C> /*@ ) @*/
    //@ ensures res.view() == Seq::<(K, V)>::empty(), res.count() == 0, res.cmp() == comparator,
    //@         cmp_ok(comparator) ==> res.wf(),
    {
        SplayTree {
            comparator,
            root: None,
            size: 0,
        }
    }
    pub fn len(&self) -> /*@ (res: @*/ usize /*@ ) @*/
    //@ ensures res == self.count(),
    {
        self.size
    }

    pub fn is_empty(&self) -> /*@ (res: @*/ bool /*@ ) @*/
    //@ ensures res == (self.count() == 0),
    {
        self.len() == 0
    }

    pub fn clear(&mut self)
    //@ ensures final(self).view() == Seq::<(K, V)>::empty(), final(self).count() == 0,
    //@         final(self).cmp() == old(self).cmp(),
    //@         cmp_ok(old(self).cmp()) ==> final(self).wf(),
    {
        (&mut self.root).take();
        self.size = 0;
    }

    pub fn contains(&mut self, key: &K) -> /*@ (res: @*/ bool /*@ ) @*/
    //@ requires old(self).wf(),
    //@ ensures
    //@     final(self).view() == old(self).view(), final(self).count() == old(self).count(),
    //@     final(self).cmp() == old(self).cmp(),
    //@     res == (exists|i: int| #[trigger] eq_at(old(self).cmp(), old(self).view(), *key, i)),
    {
        self.find_key(key).is_some()
    }

    pub fn get(&mut self, key: &K) -> /*@ (res: @*/ Option<&V> /*@ ) @*/
    //@ requires old(self).wf(),
    //@ ensures
    //@     final(self).view() == old(self).view(), final(self).count() == old(self).count(),
    //@     final(self).cmp() == old(self).cmp(),
    //@     match res {
    //@         Some(v) => exists|i: int| #[trigger] eq_at(old(self).cmp(), old(self).view(), *key, i) && *v == old(self).view()[i].1,
    //@         None => no_eq(old(self).cmp(), old(self).view(), *key),
    //@     },
    {
        // Splay trees are self-modifying, which is the cause of this ugly mess
        match (&mut self.root) {
            Some(ref mut root) => {
                //@ let ghost c = self.comparator;
                //@ let ghost s = nseq(**root);
                splay(key, root, &self.comparator);
                //@ proof { lemma_root_lookup(c, **root, *key); }
                if (self.comparator)(key, &root.key) == Ordering::Equal {
                    //@ proof { assert(eq_at(c, s, *key, inorder(root.left).len() as int)); }
                    Some(&root.value)
                } else {
                    None
                }
            }
            None => None,
        }
    }

    /// Return a mutable reference to the value corresponding to the key
    pub fn get_mut(&mut self, key: &K) -> /*@ (res: @*/ Option<&mut V> /*@ ) @*/
    //@ requires old(self).wf(),
    //@ ensures
    //@     final(self).count() == old(self).count(), final(self).cmp() == old(self).cmp(),
    //@     match res {
    //@         Some(v) => exists|i: int| #[trigger] eq_at(old(self).cmp(), old(self).view(), *key, i) && *v == old(self).view()[i].1
    //@                     && final(self).view() == old(self).view().update(i, (old(self).view()[i].0, *final(v))),
    //@         None => no_eq(old(self).cmp(), old(self).view(), *key) && final(self).view() == old(self).view(),
    //@     },
    {
        // Splay trees are self-modifying, which is the cause of this ugly mess
        match (&mut self.root) {
            Some(ref mut root) => {
                //@ let ghost c = self.comparator;
                //@ let ghost s = nseq(**root);
                splay(key, root, &self.comparator);
                //@ proof { lemma_root_lookup(c, **root, *key); }
                if (self.comparator)(key, &root.key) == Ordering::Equal {
                    //@ proof { assert(eq_at(c, s, *key, inorder(root.left).len() as int)); }
                    Some(&mut root.value)
                } else {
                    None
                }
            }
            None => None,
        }
    }

    pub fn find_key(&mut self, key: &K) -> /*@ (res: @*/ Option<&K> /*@ ) @*/
    //@ requires old(self).wf(),
    //@ ensures
    //@     final(self).view() == old(self).view(), final(self).count() == old(self).count(),
    //@     final(self).cmp() == old(self).cmp(),
    //@     match res {
    //@         Some(k) => exists|i: int| #[trigger] eq_at(old(self).cmp(), old(self).view(), *key, i) && *k == old(self).view()[i].0,
    //@         None => no_eq(old(self).cmp(), old(self).view(), *key),
    //@     },
    {
        // Splay trees are self-modifying, which is the cause of this ugly mess
        match (&mut self.root) {
            Some(ref mut root) => {
                //@ let ghost c = self.comparator;
                //@ let ghost s = nseq(**root);
                splay(key, root, &self.comparator);
                //@ proof { lemma_root_lookup(c, **root, *key); }
                if (self.comparator)(key, &root.key) == Ordering::Equal {
                    //@ proof { assert(eq_at(c, s, *key, inorder(root.left).len() as int)); }
                    Some(&root.key)
                } else {
                    None
                }
            }
            None => None,
        }
    }

    pub fn next(&mut self, key: &K) -> /*@ (res: @*/ Option<(&K, &V)> /*@ ) @*/
    //@ requires old(self).wf(),
    //@ ensures
    //@     final(self).view() == old(self).view(), final(self).count() == old(self).count(),
    //@     final(self).cmp() == old(self).cmp(),
    //@     match res {
    //@         Some(kv) => exists|i: int| #[trigger] succ_at(old(self).cmp(), old(self).view(), *key, i) && old(self).view()[i] == (*kv.0, *kv.1),
    //@         None => no_succ(old(self).cmp(), old(self).view(), *key),
    //@     },
    {
        //@ let ghost c = self.comparator;
        //@ let ghost s = inorder(self.root);
        // Splay trees are self-modifying, which is the cause of this ugly mess
        let mut node: &Node<K, V> = match (&mut self.root) {
            Some(ref mut root) => {
                splay(key, root, &self.comparator);
                root
            }
            None => return None,
        };

        let mut successor: Option<(&K, &V)> = None;
        //@ let ghost mut pre: Seq<(K, V)> = Seq::empty();
        //@ let ghost mut post: Seq<(K, V)> = Seq::empty();
        //@ proof { assert(s =~= pre + nseq(*node) + post); }

        loop
            //@ invariant_except_break
            //@     match successor { Some(kv) => post.len() > 0 && post[0] == (*kv.0, *kv.1), None => post.len() == 0 },
            //@ invariant
            //@     cmp_ok(c), c == self.comparator, sorted(c, s),
            //@     s == pre + nseq(*node) + post,
            //@     no_succ(c, pre, *key), all_gt(c, post, *key),
            //@ ensures
            //@     ord(c, *key, node.key) == Ordering::Less ==> node.left.is_none() && successor == Some((&node.key, &node.value)),
            //@     ord(c, *key, node.key) != Ordering::Less ==> node.right.is_none()
            //@         && match successor { Some(kv) => post.len() > 0 && post[0] == (*kv.0, *kv.1), None => post.len() == 0 },
            //@ decreases nseq(*node).len()
        {
            //@ proof { lemma_sorted_sub(c, pre, nseq(*node), post); }
            match (self.comparator)(key, &node.key) {
                Ordering::Less => {
                    successor = Some((&node.key, &node.value));
                    //@ proof {
                    //@     if node.left.is_some() {
                    //@         let m = seq![(node.key, node.value)] + inorder(node.right);
                    //@         assert(nseq(*node) =~= inorder(node.left) + m);
                    //@         lemma_sorted_2(c, inorder(node.left), m);
                    //@         lemma_all_gt_from_head(c, m, *key);
                    //@         lemma_all_cat(c, m, post, *key);
                    //@         assert(s =~= pre + inorder(node.left) + (m + post));
                    //@         assert(inorder(node.left) =~= nseq(*node.left.unwrap()));
                    //@         post = m + post;
                    //@     }
                    //@ }
                    match node.left {
                        Some(ref left) => node = left,
                        None => break,
                    }
                }
                Ordering::Equal | Ordering::Greater => /*@ { proof {
                        if node.right.is_some() {
                            let m = inorder(node.left) + seq![(node.key, node.value)];
                            assert(nseq(*node) =~= m + inorder(node.right));
                            lemma_prefix_not_above(c, *node, *key);
                            lemma_no_cat(c, pre, m, *key);
                            assert(s =~= (pre + m) + inorder(node.right) + post);
                            assert(inorder(node.right) =~= nseq(*node.right.unwrap()));
                            pre = pre + m;
                        }
                    } @*/ match node.right {
                    Some(ref right) => node = right,
                    None => break,
                } /*@ } @*/,
            }
        }
        //@ proof {
        //@     lemma_sorted_sub(c, pre, nseq(*node), post);
        //@     if ord(c, *key, node.key) == Ordering::Less {
        //@         let i = pre.len() as int;
        //@         assert(nseq(*node) =~= seq![(node.key, node.value)] + inorder(node.right));
        //@         assert(s[i] == (node.key, node.value));
        //@         assert forall|j: int| 0 <= j < i implies ord(c, *key, #[trigger] s[j].0) != Ordering::Less by { assert(s[j] == pre[j]); }
        //@         assert(succ_at(c, s, *key, i));
        //@     } else {
        //@         let m = inorder(node.left) + seq![(node.key, node.value)];
        //@         assert(nseq(*node) =~= m);
        //@         lemma_prefix_not_above(c, *node, *key);
        //@         lemma_no_cat(c, pre, m, *key);
        //@         let i = (pre + m).len() as int;
        //@         assert(s =~= (pre + m) + post);
        //@         if post.len() > 0 {
        //@             assert(s[i] == post[0]);
        //@             assert forall|j: int| 0 <= j < i implies ord(c, *key, #[trigger] s[j].0) != Ordering::Less by { assert(s[j] == (pre + m)[j]); }
        //@             assert(succ_at(c, s, *key, i));
        //@         } else {
        //@             assert(s =~= pre + m);
        //@         }
        //@     }
        //@ }

        successor
    }

    pub fn prev(&mut self, key: &K) -> /*@ (res: @*/ Option<(&K, &V)> /*@ ) @*/
    //@ requires old(self).wf(),
    //@ ensures
    //@     final(self).view() == old(self).view(), final(self).count() == old(self).count(),
    //@     final(self).cmp() == old(self).cmp(),
    //@     match res {
    //@         Some(kv) => exists|i: int| #[trigger] pred_at(old(self).cmp(), old(self).view(), *key, i) && old(self).view()[i] == (*kv.0, *kv.1),
    //@         None => no_pred(old(self).cmp(), old(self).view(), *key),
    //@     },
    {
        //@ let ghost c = self.comparator;
        //@ let ghost s = inorder(self.root);
        // Splay trees are self-modifying, which is the cause of this ugly mess
        let mut node: &Node<K, V> = match (&mut self.root) {
            Some(ref mut root) => {
                splay(key, root, &self.comparator);
                root
            }
            None => return None,
        };

        let mut predecessor: Option<(&K, &V)> = None;
        //@ let ghost mut pre: Seq<(K, V)> = Seq::empty();
        //@ let ghost mut post: Seq<(K, V)> = Seq::empty();
        //@ proof { assert(s =~= pre + nseq(*node) + post); }

        loop
            //@ invariant_except_break
            //@     match predecessor { Some(kv) => pre.len() > 0 && pre[pre.len() - 1] == (*kv.0, *kv.1), None => pre.len() == 0 },
            //@ invariant
            //@     cmp_ok(c), c == self.comparator, sorted(c, s),
            //@     s == pre + nseq(*node) + post,
            //@     all_lt(c, pre, *key), no_pred(c, post, *key),
            //@ ensures
            //@     ord(c, *key, node.key) == Ordering::Greater ==> node.right.is_none() && predecessor == Some((&node.key, &node.value)),
            //@     ord(c, *key, node.key) != Ordering::Greater ==> node.left.is_none()
            //@         && match predecessor { Some(kv) => pre.len() > 0 && pre[pre.len() - 1] == (*kv.0, *kv.1), None => pre.len() == 0 },
            //@ decreases nseq(*node).len()
        {
            //@ proof { lemma_sorted_sub(c, pre, nseq(*node), post); }
            match (self.comparator)(key, &node.key) {
                Ordering::Equal | Ordering::Less => /*@ { proof {
                        if node.left.is_some() {
                            let m = seq![(node.key, node.value)] + inorder(node.right);
                            assert(nseq(*node) =~= inorder(node.left) + m);
                            lemma_suffix_not_below(c, *node, *key);
                            lemma_no_cat(c, m, post, *key);
                            assert(s =~= pre + inorder(node.left) + (m + post));
                            assert(inorder(node.left) =~= nseq(*node.left.unwrap()));
                            post = m + post;
                        }
                    } @*/ match node.left {
                    Some(ref left) => node = left,
                    None => break,
                } /*@ } @*/,
                Ordering::Greater => {
                    predecessor = Some((&node.key, &node.value));
                    //@ proof {
                    //@     if node.right.is_some() {
                    //@         let m = inorder(node.left) + seq![(node.key, node.value)];
                    //@         assert(nseq(*node) =~= m + inorder(node.right));
                    //@         lemma_sorted_2(c, m, inorder(node.right));
                    //@         assert(m[m.len() - 1] == (node.key, node.value));
                    //@         lemma_all_lt_from_last(c, m, *key);
                    //@         lemma_all_cat(c, pre, m, *key);
                    //@         assert(s =~= (pre + m) + inorder(node.right) + post);
                    //@         assert(inorder(node.right) =~= nseq(*node.right.unwrap()));
                    //@         pre = pre + m;
                    //@     }
                    //@ }
                    match node.right {
                        Some(ref right) => node = right,
                        None => break,
                    }
                }
            }
        }
        //@ proof {
        //@     lemma_sorted_sub(c, pre, nseq(*node), post);
        //@     if ord(c, *key, node.key) == Ordering::Greater {
        //@         let m = inorder(node.left) + seq![(node.key, node.value)];
        //@         assert(nseq(*node) =~= m);
        //@         let i = (pre + inorder(node.left)).len() as int;
        //@         assert(s =~= (pre + inorder(node.left)) + seq![(node.key, node.value)] + post);
        //@         assert(s[i] == (node.key, node.value));
        //@         assert forall|j: int| i < j < s.len() implies ord(c, *key, #[trigger] s[j].0) != Ordering::Greater by { assert(s[j] == post[j - i - 1]); }
        //@         assert(pred_at(c, s, *key, i));
        //@     } else {
        //@         let m = seq![(node.key, node.value)] + inorder(node.right);
        //@         assert(nseq(*node) =~= m);
        //@         lemma_suffix_not_below(c, *node, *key);
        //@         lemma_no_cat(c, m, post, *key);
        //@         assert(s =~= pre + (m + post));
        //@         if pre.len() > 0 {
        //@             let i = pre.len() - 1;
        //@             assert(s[i] == pre[i]);
        //@             assert forall|j: int| i < j < s.len() implies ord(c, *key, #[trigger] s[j].0) != Ordering::Greater by { assert(s[j] == (m + post)[j - i - 1]); }
        //@             assert(pred_at(c, s, *key, i));
        //@         } else {
        //@             assert(s =~= m + post);
        //@         }
        //@     }
        //@ }

        predecessor
    }

    pub fn insert(&mut self, key: K, value: V) -> /*@ (res: @*/ Option<V> /*@ ) @*/
    //@ requires old(self).wf(), old(self).count() < usize::MAX,
    //@ ensures
    //@     final(self).wf(), final(self).cmp() == old(self).cmp(),
    //@     match res {
    //@         // key present: the stored key is kept, its value replaced, the old value handed back
    //@         Some(ov) => exists|i: int| #[trigger] eq_at(old(self).cmp(), old(self).view(), key, i) && ov == old(self).view()[i].1
    //@                     && final(self).view() == old(self).view().update(i, (old(self).view()[i].0, value))
    //@                     && final(self).count() == old(self).count(),
    //@         // key absent: (key, value) is spliced in (wf says: at its sorted position), everything else untouched
    //@         None => no_eq(old(self).cmp(), old(self).view(), key)
    //@                     && (exists|p: int| 0 <= p <= old(self).view().len() && final(self).view() == #[trigger] seq_ins(old(self).view(), p, (key, value)))
    //@                     && final(self).count() == old(self).count() + 1,
    //@     },
    {
        //@ let ghost c = self.comparator;
        //@ let ghost s = inorder(self.root);
        //@ let ghost k = key;
        //@ let ghost v = value;
        //@ let ghost mut p: int = 0;
        match (&mut self.root) {
            Some(ref mut root) => {
                splay(&key, root, &self.comparator);
                //@ let ghost n = **root;
                //@ let ghost l = inorder(n.left);
                //@ let ghost r = inorder(n.right);
                //@ proof {
                //@     lemma_root_lookup(c, n, k);
                //@     assert(s =~= l + seq![(n.key, n.value)] + r);
                //@     p = l.len() as int;
                //@ }

                match (self.comparator)(&key, &root.key) {
                    Ordering::Equal => {
                        let old = mem::replace(&mut root.value, value);
                        //@ proof {
                        //@     assert(eq_at(c, s, k, p));
                        //@     assert(nseq(**root) =~= s.update(p, (s[p].0, v)));
                        //@     lemma_sorted_same_keys(c, s, nseq(**root));
                        //@ }
                        return Some(old);
                    }
                    Ordering::Less => {
                        let left = root.pop_left();
                        let new = Node::new_boxed(key, value, left, None);
                        let prev = mem::replace(root, new);
                        //@ proof { assert(inorder(prev.left) =~= Seq::<(K, V)>::empty()); assert(inorder(Some(prev)) =~= seq![(n.key, n.value)] + r); }
                        root.right = Some(prev);
                        //@ proof {
                        //@     let b = seq![(n.key, n.value)] + r;
                        //@     assert(nseq(**root) =~= l + seq![(k, v)] + b);
                        //@     assert(s =~= l + b);
                        //@     assert(all_gt(c, seq![(n.key, n.value)], k));
                        //@     lemma_all_cat(c, seq![(n.key, n.value)], r, k);
                        //@     lemma_sorted_insert(c, l, (k, v), b);
                        //@     assert(s.subrange(0, p) =~= l);
                        //@     assert(s.subrange(p, s.len() as int) =~= b);
                        //@ }
                    }
                    Ordering::Greater => {
                        let right = root.pop_right();
                        let new = Node::new_boxed(key, value, None, right);
                        let prev = mem::replace(root, new);
                        //@ proof { assert(inorder(prev.right) =~= Seq::<(K, V)>::empty()); assert(inorder(Some(prev)) =~= l + seq![(n.key, n.value)]); }
                        root.left = Some(prev);
                        //@ proof {
                        //@     let a = l + seq![(n.key, n.value)];
                        //@     assert(nseq(**root) =~= a + seq![(k, v)] + r);
                        //@     assert(s =~= a + r);
                        //@     assert(all_lt(c, seq![(n.key, n.value)], k));
                        //@     lemma_all_cat(c, l, seq![(n.key, n.value)], k);
                        //@     lemma_sorted_insert(c, a, (k, v), r);
                        //@     p = a.len() as int;
                        //@     assert(s.subrange(0, p) =~= a);
                        //@     assert(s.subrange(p, s.len() as int) =~= r);
                        //@ }
                    }
                }
            }
            slot => {
                *slot = Some(Node::new_boxed(key, value, None, None));
                //@ proof {
                //@     p = 0;
                //@     assert(s =~= Seq::<(K, V)>::empty());
                //@     assert(inorder(*slot) =~= seq![(k, v)]);
                //@     assert(seq_ins(s, 0, (k, v)) =~= seq![(k, v)]);
                //@ }
            }
        }
        //@ proof {
        //@     assert(inorder(self.root) =~= seq_ins(s, p, (k, v)));
        //@     assert(inorder(self.root).len() == s.len() + 1);
        //@ }
        self.size += 1;
        None
    }

    pub fn remove(&mut self, key: &K) -> /*@ (res: @*/ Option<V> /*@ ) @*/
    //@ requires old(self).wf(),
    //@ ensures
    //@     final(self).wf(), final(self).cmp() == old(self).cmp(),
    //@     match res {
    //@         Some(v) => exists|i: int| #[trigger] eq_at(old(self).cmp(), old(self).view(), *key, i) && v == old(self).view()[i].1
    //@                     && final(self).view() == seq_del(old(self).view(), i)
    //@                     && final(self).count() == old(self).count() - 1,
    //@         None => no_eq(old(self).cmp(), old(self).view(), *key)
    //@                     && final(self).view() == old(self).view() && final(self).count() == old(self).count(),
    //@     },
    {
        //@ let ghost c = self.comparator;
        //@ let ghost s = inorder(self.root);
        match *(&mut self.root) {
            None => {
                return None;
            }
            Some(ref mut root) => {
                splay(key, root, &self.comparator);
                //@ proof { lemma_root_lookup(c, **root, *key); }
                if (self.comparator)(key, &root.key) != Ordering::Equal {
                    return None;
                }
            }
        }
        //@ let ghost n = *self.root.unwrap();
        //@ let ghost l = inorder(n.left);
        //@ let ghost r = inorder(n.right);
        //@ let ghost p = l.len() as int;
        //@ proof {
        //@     assert(s =~= l + seq![(n.key, n.value)] + r);
        //@     assert(eq_at(c, s, *key, p));
        //@     lemma_sorted_sub(c, l, seq![(n.key, n.value)], r);
        //@     lemma_sorted_delete(c, l, (n.key, n.value), r);
        //@     assert(seq_del(s, p) =~= l + r) by {
        //@         assert(s.subrange(0, p) =~= l);
        //@         assert(s.subrange(p + 1, s.len() as int) =~= r);
        //@     }
        //@ }

        let Node { left, right, value, .. } = *(&mut self.root).take().unwrap();

        *(&mut self.root) = match left {
            None => right,
            Some(mut node) => {
                //@ proof { assert(l =~= nseq(*node)); }
                splay(key, &mut node, &self.comparator);
                //@ proof {
                //@     // everything in the left subtree is below key, so the new root of it has no right child
                //@     lemma_all_cat(c, inorder(node.left) + seq![(node.key, node.value)], inorder(node.right), *key);
                //@     lemma_lt_gt_empty(c, inorder(node.right), *key);
                //@     assert(l =~= inorder(node.left) + seq![(node.key, node.value)]);
                //@ }
                node.right = right;
                //@ proof { assert(nseq(*node) =~= l + r); }
                Some(node)
            }
        };
        //@ proof { assert(inorder(self.root) =~= l + r); }

        self.size -= 1;
        Some(value)
    }

    pub fn min(&self) -> /*@ (res: @*/ Option<&K> /*@ ) @*/
    //@ ensures match res {
    //@     Some(k) => self.view().len() > 0 && self.view()[0].0 == *k,
    //@     None => self.view().len() == 0,
    //@ },
    {
        self.min_node().map(|node /*@ : &Node<K, V> @*/| /*@ -> (r: &K) ensures *r == node.key, { @*/ &node.key /*@ } @*/)
    }

    pub fn max(&self) -> /*@ (res: @*/ Option<&K> /*@ ) @*/
    //@ ensures match res {
    //@     Some(k) => self.view().len() > 0 && self.view()[self.view().len() - 1].0 == *k,
    //@     None => self.view().len() == 0,
    //@ },
    {
        self.max_node().map(|node /*@ : &Node<K, V> @*/| /*@ -> (r: &K) ensures *r == node.key, { @*/ &node.key /*@ } @*/)
    }

    fn min_node(&self) -> /*@ (res: @*/ Option<&Node<K, V>> /*@ ) @*/
    //@ ensures match res {
    //@     Some(n) => self.view().len() > 0 && self.view()[0] == (n.key, n.value),
    //@     None => self.view().len() == 0,
    //@ },
    {
        match (&self.root) {
            Some(ref root) => {
                let mut node = root;
                //@ let ghost s = inorder(self.root);
                //@ proof { assert(s =~= nseq(**node)); }

                while let Some(ref left) = node.left
                    //@ invariant s.len() > 0, nseq(**node).len() > 0, s[0] == nseq(**node)[0],
                    //@ ensures node.left.is_none(),
                    //@ decreases nseq(**node).len()
                {
                    //@ proof { assert(nseq(**left).len() > 0); assert(nseq(**node)[0] == nseq(**left)[0]); }
                    node = left
                }
                Some(node)
            }
            None => None,
        }
    }

    fn max_node(&self) -> /*@ (res: @*/ Option<&Node<K, V>> /*@ ) @*/
    //@ ensures match res {
    //@     Some(n) => self.view().len() > 0 && self.view()[self.view().len() - 1] == (n.key, n.value),
    //@     None => self.view().len() == 0,
    //@ },
    {
        match (&self.root) {
            Some(ref root) => {
                let mut node = root;
                //@ let ghost s = inorder(self.root);
                //@ proof { assert(s =~= nseq(**node)); }

                while let Some(ref right) = node.right
                    //@ invariant s.len() > 0, nseq(**node).len() > 0, s[s.len() - 1] == nseq(**node)[nseq(**node).len() - 1],
                    //@ ensures node.right.is_none(),
                    //@ decreases nseq(**node).len()
                {
                    //@ proof {
                    //@     assert(nseq(**right).len() > 0);
                    //@     assert(nseq(**node)[nseq(**node).len() - 1] == nseq(**right)[nseq(**right).len() - 1]);
                    //@ }
                    node = right
                }
                Some(node)
            }
            None => None,
        }
    }
}

impl< K, V, C> SplayTree<K, V, C>
where
    C: Fn(&K, &K) -> Ordering,
{

    fn index(&mut self, index: & K) -> /*@ (res: @*/ &V /*@ ) @*/
    //@ requires old(self).wf(), exists|i: int| #[trigger] eq_at(old(self).cmp(), old(self).view(), *index, i),
    //@ ensures
    //@     final(self).view() == old(self).view(), final(self).count() == old(self).count(), final(self).cmp() == old(self).cmp(),
    //@     exists|i: int| #[trigger] eq_at(old(self).cmp(), old(self).view(), *index, i) && *res == old(self).view()[i].1,
    {
        self.get(index).expect("key not present in SplayMap")
    }
}
impl< K, V, C> SplayTree<K, V, C>
where
    C: Fn(&K, &K) -> Ordering,
{
    fn index_mut(&mut self, index: &K) -> /*@ (res: @*/ &mut V /*@ ) @*/
    //@ requires old(self).wf(), exists|i: int| #[trigger] eq_at(old(self).cmp(), old(self).view(), *index, i),
    //@ ensures
    //@     final(self).count() == old(self).count(), final(self).cmp() == old(self).cmp(),
    //@     exists|i: int| #[trigger] eq_at(old(self).cmp(), old(self).view(), *index, i) && *res == old(self).view()[i].1
    //@         && final(self).view() == old(self).view().update(i, (old(self).view()[i].0, *final(res))),
    {
        self.get_mut(index).expect("key not present in SplayMap")
    }
}

impl<K, V, C> SplayTree<K, V, C>
where
    C: Fn(&K, &K) -> Ordering,
{

    fn into_iter(self) -> /*@ (res: @*/ IntoIter<K, V> /*@ ) @*/
    //@ ensures res.seq() == self.view(), res.rem() == self.count(), self.wf() ==> res.wf(),
    { let mut this = self;
        IntoIter {
            cur: (&mut this.root).take(),
            remaining: this.size,
        }
    }
}

impl<K, V, C> SplayTree<K, V, C>
where
    C: Fn(&K, &K) -> Ordering,
{
    fn drop(&mut self)
    //@ ensures final(self).view() == Seq::<(K, V)>::empty(), final(self).count() == 0,
    {
        self.clear();
    }
}

pub struct IntoIter<K, V> {
    cur: Option<Box<Node<K, V>>>,
    remaining: usize,
}

impl<K, V> IntoIter<K, V> {
    fn next(&mut self) -> /*@ (res: @*/ Option<(K, V)> /*@ ) @*/
    //@ requires old(self).wf(),
    //@ ensures
    //@     final(self).wf(),
    //@     match res {
    //@         Some(kv) => old(self).seq().len() > 0 && kv == old(self).seq()[0]
    //@                     && final(self).seq() == old(self).seq().subrange(1, old(self).seq().len() as int),
    //@         None => old(self).seq().len() == 0 && final(self).seq() == old(self).seq() && final(self).rem() == old(self).rem(),
    //@     },
    {
        //@ let ghost s = inorder(self.cur);
        let mut cur = match self.cur.take() {
            Some(cur) => cur,
            None => return None,
        };
        //@ proof { assert(s =~= nseq(*cur)); }
        loop
            //@ invariant nseq(*cur) == s, self.remaining == s.len(), self.cur.is_none(), s == old(self).seq(),
            //@ decreases inorder(cur.left).len()
        {
            match cur.pop_left() {
                Some(node) => {
                    let mut node = node;
                    //@ let ghost c0 = *cur;
                    //@ let ghost n0 = *node;
                    //@ proof { assert(s =~= (inorder(n0.left) + seq![(n0.key, n0.value)] + inorder(n0.right)) + seq![(c0.key, c0.value)] + inorder(c0.right)); }
                    cur.left = node.pop_right();
                    //@ proof { assert(inorder(Some(cur)) =~= inorder(n0.right) + seq![(c0.key, c0.value)] + inorder(c0.right)); }
                    node.right = Some(cur);
                    cur = node;
                    //@ proof { assert(nseq(*cur) =~= s); }
                }

                None => {
                    //@ let ghost e = (cur.key, cur.value);
                    //@ proof { assert(s =~= seq![e] + inorder(cur.right)); assert(s[0] == e); }
                    self.cur = cur.pop_right();
                    // left and right fields are both None
                    let node = *cur;
                    let Node { key, value, .. } = node;
                    //@ proof { assert(inorder(self.cur) =~= s.subrange(1, s.len() as int)); assert((key, value) == e); }
                    self.remaining -= 1;
                    return Some((key, value));
                }
            }
        }
    }

    fn size_hint(&self) -> /*@ (res: @*/ (usize, Option<usize>) /*@ ) @*/
    //@ ensures res.0 == self.rem(), res.1 == Some(self.rem()),
    {
        (self.remaining, Some(self.remaining))
    }
}

impl<K, V> IntoIter<K, V> {
    fn next_back(&mut self) -> /*@ (res: @*/ Option<(K, V)> /*@ ) @*/
    //@ requires old(self).wf(),
    //@ ensures
    //@     final(self).wf(),
    //@     match res {
    //@         Some(kv) => old(self).seq().len() > 0 && kv == old(self).seq()[old(self).seq().len() - 1]
    //@                     && final(self).seq() == old(self).seq().subrange(0, old(self).seq().len() - 1),
    //@         None => old(self).seq().len() == 0 && final(self).seq() == old(self).seq() && final(self).rem() == old(self).rem(),
    //@     },
    {
        //@ let ghost s = inorder(self.cur);
        let mut cur = match self.cur.take() {
            Some(cur) => cur,
            None => return None,
        };
        //@ proof { assert(s =~= nseq(*cur)); }
        loop
            //@ invariant nseq(*cur) == s, self.remaining == s.len(), self.cur.is_none(), s == old(self).seq(),
            //@ decreases inorder(cur.right).len()
        {
            match cur.pop_right() {
                Some(node) => {
                    let mut node = node;
                    //@ let ghost c0 = *cur;
                    //@ let ghost n0 = *node;
                    //@ proof { assert(s =~= inorder(c0.left) + seq![(c0.key, c0.value)] + (inorder(n0.left) + seq![(n0.key, n0.value)] + inorder(n0.right))); }
                    cur.right = node.pop_left();
                    //@ proof { assert(inorder(Some(cur)) =~= inorder(c0.left) + seq![(c0.key, c0.value)] + inorder(n0.left)); }
                    node.left = Some(cur);
                    cur = node;
                    //@ proof { assert(nseq(*cur) =~= s); }
                }

                None => {
                    //@ let ghost e = (cur.key, cur.value);
                    //@ proof { assert(s =~= inorder(cur.left) + seq![e]); assert(s[s.len() - 1] == e); }
                    self.cur = cur.pop_left();
                    // left and right fields are both None
                    let node = *cur;
                    let Node { key, value, .. } = node;
                    //@ proof { assert(inorder(self.cur) =~= s.subrange(0, s.len() - 1)); assert((key, value) == e); }
                    self.remaining -= 1;
                    return Some((key, value));
                }
            }
        }
    }
}

/// Performs a top-down splay operation on a tree rooted at `node`. This will
/// modify the pointer to contain the new root of the tree once the splay
/// operation is done. When finished, if `key` is in the tree, it will be at the
/// root. Otherwise the closest key to the specified key will be at the root.
fn splay<K, V, C>(key: &K, node: &mut Box<Node<K, V>>, comparator: &C)
where
    C: Fn(&K, &K) -> Ordering,
    //@ requires
    //@     cmp_callable(*comparator),
    //@     sorted(*comparator, nseq(**old(node))) ==> cmp_laws(*comparator),
    //@ ensures
    //@     // (a) the in-order sequence of (key, value) pairs is untouched
    //@     nseq(**final(node)) == nseq(**old(node)),
    //@     // (b) on a sorted tree the new root splits the tree around `key`
    //@     sorted(*comparator, nseq(**old(node))) ==> all_lt(*comparator, inorder(final(node).left), *key),
    //@     sorted(*comparator, nseq(**old(node))) ==> all_gt(*comparator, inorder(final(node).right), *key),
{
    let mut newleft = None;
    let mut newright = None;
    //@ let ghost c = *comparator;
    //@ let ghost s0 = nseq(**node);
    //@ let ghost srt = sorted(c, s0);
    //@ let ghost mut lpre: Seq<(K, V)> = Seq::empty();
    //@ let ghost mut rpost: Seq<(K, V)> = Seq::empty();
    //@ #[verifier::prophetic] let ghost mut lfin: Option<Box<Node<K, V>>> = None;
    //@ #[verifier::prophetic] let ghost mut rfin: Option<Box<Node<K, V>>> = None;

    // Eplicitly grab a new scope so the loans on newleft/newright are
    // terminated before we move out of them.
    {
        // Yes, these are backwards, that's intentional.
        let mut l = &mut newright;
        let mut r = &mut newleft;
        //@ proof { lfin = *final(l); rfin = *final(r); }

        loop
            //@ invariant
            //@     cmp_callable(c), c == *comparator, srt ==> cmp_laws(c), srt == sorted(c, s0),
            //@     s0 == lpre + nseq(**node) + rpost,
            //@     inorder(lfin) == lpre + inorder(*final(l)),
            //@     inorder(rfin) == inorder(*final(r)) + rpost,
            //@     (*l).is_none(),
            //@     (*r).is_none(),
            //@     srt ==> all_lt(c, lpre, *key) && all_gt(c, rpost, *key),
            //@ ensures
            //@     srt ==> all_lt(c, inorder(node.left), *key) && all_gt(c, inorder(node.right), *key),
            //@ decreases nseq(**node).len()
        {
            //@ proof { if srt { lemma_sorted_sub(c, lpre, nseq(**node), rpost); } }
            match comparator(key, &node.key) {
                // Found it, yay!
                Ordering::Equal => /*@ { proof { if srt { lemma_split(c, **node, *key); } } @*/ break /*@ } @*/,

                Ordering::Less => {
                    //@ let ghost n0 = **node;
                    let mut left = match node.pop_left() {
                        Some(left) => left,
                        None => /*@ { proof { if srt { lemma_split(c, **node, *key); } } @*/ break /*@ } @*/,
                    };
                    //@ let ghost l0 = *left;
                    //@ proof {
                    //@     assert(inorder(n0.left) =~= nseq(l0));
                    //@     assert(nseq(**node) =~= seq![(n0.key, n0.value)] + inorder(n0.right));
                    //@     assert(nseq(n0) =~= nseq(l0) + nseq(**node));
                    //@     if srt { lemma_sorted_2(c, nseq(l0), nseq(**node)); }
                    //@ }
                    // rotate this node right if necessary
                    if comparator(key, &left.key) == Ordering::Less {
                        // A bit odd, but avoids drop glue
                        mem::swap(&mut node.left, &mut left.right);
                        mem::swap(&mut left, node);
                        let none = mem::replace(&mut node.right, Some(left));
                        match mem::replace(&mut node.left, none) {
                            Some(l) => {
                                left = l;
                                //@ proof {
                                //@     assert(inorder(l0.left) =~= nseq(*left));
                                //@     assert(node.left.is_none());
                                //@     assert(nseq(**node) =~= seq![(l0.key, l0.value)] + (inorder(l0.right) + seq![(n0.key, n0.value)] + inorder(n0.right)));
                                //@     assert(nseq(n0) =~= nseq(*left) + nseq(**node));
                                //@     if srt { lemma_sorted_2(c, nseq(*left), nseq(**node)); }
                                //@ }
                            }
                            None => /*@ { proof { assert(inorder(l0.left) =~= Seq::<(K, V)>::empty()); assert(nseq(**node) =~= seq![(l0.key, l0.value)] + (inorder(l0.right) + seq![(n0.key, n0.value)] + inorder(n0.right))); assert(nseq(n0) =~= nseq(**node)); if srt { lemma_split(c, **node, *key); } } @*/ break /*@ } @*/,
                        }
                    }

                    //@ proof {
                    //@     assert(node.left.is_none());
                    //@     assert(nseq(n0) =~= nseq(*left) + nseq(**node));
                    //@     assert(s0 =~= lpre + nseq(*left) + (nseq(**node) + rpost));
                    //@     assert(inorder(Some(*node)) =~= nseq(**node));
                    //@     if srt {
                    //@         // key is below the head of what moves to the right tree
                    //@         assert(nseq(**node)[0] == (node.key, node.value));
                    //@         lemma_all_gt_from_head(c, nseq(**node), *key);
                    //@         lemma_all_cat(c, nseq(**node), rpost, *key);
                    //@     }
                    //@     rpost = nseq(**node) + rpost;
                    //@ }
                    *r = Some(mem::replace(node, left));
                    let tmp = r;
                    r = &mut tmp.as_mut().unwrap().left;
                }

                // If you look closely, you may have seen some similar code
                // before
                Ordering::Greater => {
                    //@ let ghost n0 = **node;
                    let mut right = match node.pop_right() {
                        Some(right) => right,
                        None => /*@ { proof { if srt { lemma_split(c, **node, *key); } } @*/ break /*@ } @*/,
                    };
                    //@ let ghost r0 = *right;
                    //@ proof {
                    //@     assert(inorder(n0.right) =~= nseq(r0));
                    //@     assert(nseq(**node) =~= inorder(n0.left) + seq![(n0.key, n0.value)]);
                    //@     assert(nseq(n0) =~= nseq(**node) + nseq(r0));
                    //@     if srt { lemma_sorted_2(c, nseq(**node), nseq(r0)); }
                    //@ }

                    if comparator(key, &right.key) == Ordering::Greater {
                        mem::swap(&mut node.right, &mut right.left);
                        mem::swap(&mut right, node);
                        let none = mem::replace(&mut node.left, Some(right));
                        match mem::replace(&mut node.right, none) {
                            Some(r) => {
                                right = r;
                                //@ proof {
                                //@     assert(inorder(r0.right) =~= nseq(*right));
                                //@     assert(node.right.is_none());
                                //@     assert(nseq(**node) =~= (inorder(n0.left) + seq![(n0.key, n0.value)] + inorder(r0.left)) + seq![(r0.key, r0.value)]);
                                //@     assert(nseq(n0) =~= nseq(**node) + nseq(*right));
                                //@     if srt { lemma_sorted_2(c, nseq(**node), nseq(*right)); }
                                //@ }
                            }
                            None => /*@ { proof { assert(inorder(r0.right) =~= Seq::<(K, V)>::empty()); assert(nseq(**node) =~= (inorder(n0.left) + seq![(n0.key, n0.value)] + inorder(r0.left)) + seq![(r0.key, r0.value)]); assert(nseq(n0) =~= nseq(**node)); if srt { lemma_split(c, **node, *key); } } @*/ break /*@ } @*/,
                        }
                    }
                    //@ proof {
                    //@     assert(node.right.is_none());
                    //@     assert(nseq(n0) =~= nseq(**node) + nseq(*right));
                    //@     assert(s0 =~= (lpre + nseq(**node)) + nseq(*right) + rpost);
                    //@     assert(inorder(Some(*node)) =~= nseq(**node));
                    //@     if srt {
                    //@         let m = nseq(**node);
                    //@         assert(m[m.len() - 1] == (node.key, node.value));
                    //@         lemma_all_lt_from_last(c, m, *key);
                    //@         lemma_all_cat(c, lpre, m, *key);
                    //@     }
                    //@     lpre = lpre + nseq(**node);
                    //@ }
                    *l = Some(mem::replace(node, right));
                    let tmp = l;
                    l = &mut tmp.as_mut().unwrap().right;
                }
            }
        }

        mem::swap(l, &mut node.left);
        mem::swap(r, &mut node.right);
    }
    //@ proof {
    //@     if srt {
    //@         lemma_all_cat(c, lpre, inorder(newright), *key);
    //@         lemma_all_cat(c, inorder(newleft), rpost, *key);
    //@     }
    //@ }

    node.left = newright;
    node.right = newleft;
}
