
// ======================================================================================
// Postlude of the splay unit: consequences of the contracts (lemmas over the model) and a
// client that shows the preconditions are satisfiable (non-vacuity).
// ======================================================================================

// On a sorted sequence the element Equal to a key is unique: lookups are deterministic.
pub proof fn lemma_eq_unique<K, V, C: Fn(&K, &K) -> Ordering>(c: C, s: Seq<(K, V)>, key: K, i: int, j: int)
    requires cmp_laws(c), sorted(c, s), eq_at(c, s, key, i), eq_at(c, s, key, j),
    ensures i == j,
{
    if i < j {
        assert(ord(c, s[i].0, s[j].0) == Ordering::Less);
        law_flip(c, key, s[i].0);
        law_eq_left(c, s[i].0, key, s[j].0);
    } else if j < i {
        assert(ord(c, s[j].0, s[i].0) == Ordering::Less);
        law_flip(c, key, s[j].0);
        law_eq_left(c, s[j].0, key, s[i].0);
    }
}

// successor / predecessor positions are unique as well
pub proof fn lemma_succ_unique<K, V, C: Fn(&K, &K) -> Ordering>(c: C, s: Seq<(K, V)>, key: K, i: int, j: int)
    requires succ_at(c, s, key, i), succ_at(c, s, key, j),
    ensures i == j,
{
}

pub proof fn lemma_pred_unique<K, V, C: Fn(&K, &K) -> Ordering>(c: C, s: Seq<(K, V)>, key: K, i: int, j: int)
    requires pred_at(c, s, key, i), pred_at(c, s, key, j),
    ensures i == j,
{
}

// The insertion position is the rank of the key: everything before it is below, everything after above.
pub proof fn lemma_insert_position<K, V, C: Fn(&K, &K) -> Ordering>(c: C, s: Seq<(K, V)>, p: int, e: (K, V))
    requires cmp_laws(c), 0 <= p <= s.len(), sorted(c, seq_ins(s, p, e)),
    ensures all_lt(c, s.subrange(0, p), e.0), all_gt(c, s.subrange(p, s.len() as int), e.0),
{
    let t = seq_ins(s, p, e);
    assert(t[p] == e);
    assert forall|i: int| 0 <= i < p implies ord(c, e.0, #[trigger] s.subrange(0, p)[i].0) == Ordering::Greater by {
        assert(t[i] == s[i]);
        assert(ord(c, t[i].0, t[p].0) == Ordering::Less);
        law_flip(c, s[i].0, e.0);
    }
    assert forall|i: int| 0 <= i < s.len() - p implies ord(c, e.0, #[trigger] s.subrange(p, s.len() as int)[i].0) == Ordering::Less by {
        assert(t[p + 1 + i] == s[p + i]);
        assert(ord(c, t[p].0, t[p + 1 + i].0) == Ordering::Less);
    }
}

// ---- non-vacuity client ------------------------------------------------------------------------
// A concrete comparator satisfies `cmp_ok`, so `wf` is satisfiable and the contracts compose.
fn cmp_u64(a: &u64, b: &u64) -> (r: Ordering)
    ensures r == (if *a < *b { Ordering::Less } else if *a == *b { Ordering::Equal } else { Ordering::Greater }),
{
    if *a < *b { Ordering::Less } else if *a == *b { Ordering::Equal } else { Ordering::Greater }
}

pub open spec fn u64_ord(a: u64, b: u64) -> Ordering {
    if a < b { Ordering::Less } else if a == b { Ordering::Equal } else { Ordering::Greater }
}

proof fn lemma_cmp_u64_ok()
    ensures cmp_ok(cmp_u64),
{
    let f = |a: u64, b: u64| u64_ord(a, b);
    assert(describes(cmp_u64, f));
    assert(order_laws(f));
    lemma_cmp_ok_intro(cmp_u64, f);
}

fn client_nonvacuity() {
    proof { lemma_cmp_u64_ok(); }
    let mut t = SplayTree::<u64, u64, _>::new(cmp_u64);
    assert(t.wf());
    let r0 = t.insert(5, 50);
    assert(r0.is_none());                // nothing Equal in the empty map
    assert(t.view() =~= seq![(5u64, 50u64)]);
    let r1 = t.insert(3, 30);
    assert(t.wf());
    let n = t.len();
    assert(1 <= n <= 2);
    let g = t.get(&7);
    assert(t.view().len() == n);
    let rm = t.remove(&5);
    assert(t.wf());
    let mut it = t.into_iter();
    let a = it.next();
    let b = it.next_back();
    assert(it.wf());
}
