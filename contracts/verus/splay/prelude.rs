pub assume_specification<T> [std::mem::replace] (dest: &mut T, src: T) -> (res: T)
    ensures res == *old(dest), *final(dest) == src;
