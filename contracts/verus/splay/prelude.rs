// ======================================================================================
// Prelude of the splay unit: the abstract model (hand-written specification, no code from /repo).
// ======================================================================================

pub assume_specification<T> [std::mem::replace] (dest: &mut T, src: T) -> (res: T)
    ensures res == *old(dest), *final(dest) == src;

// derived PartialEq of std::cmp::Ordering is structural equality
pub assume_specification [<Ordering as PartialEq>::eq] (a: &Ordering, b: &Ordering) -> (r: bool)
    ensures r == (*a == *b);

// ---- comparator model -----------------------------------------------------------------
// f describes c: c can be called on everything and every answer it can give is f's answer
pub open spec fn describes<K, C: Fn(&K, &K) -> Ordering>(c: C, f: spec_fn(K, K) -> Ordering) -> bool {
    &&& forall|x: &K, y: &K| call_requires(c, (x, y))
    &&& forall|x: &K, y: &K, r: Ordering| call_ensures(c, (x, y), r) ==> r == f(*x, *y)
}

// f is a strict weak order (Equal is a congruence, Less is transitive, Less/Greater mirror each other)
pub open spec fn order_laws<K>(f: spec_fn(K, K) -> Ordering) -> bool {
    &&& forall|x: K, y: K| (f(x, y) == Ordering::Less) <==> (#[trigger] f(y, x) == Ordering::Greater)
    &&& forall|x: K, y: K, z: K| #![trigger f(x, y), f(y, z)] f(x, y) == Ordering::Less && f(y, z) == Ordering::Less ==> f(x, z) == Ordering::Less
    &&& forall|x: K, y: K, z: K| #![trigger f(x, y), f(x, z)] f(x, y) == Ordering::Equal ==> f(x, z) == f(y, z)
}

// the mathematical order a consistent comparator computes
pub open spec fn ordf<K, C: Fn(&K, &K) -> Ordering>(c: C) -> spec_fn(K, K) -> Ordering {
    choose|f: spec_fn(K, K) -> Ordering| describes(c, f) && order_laws(f)
}

#[verifier::opaque]
pub open spec fn ord<K, C: Fn(&K, &K) -> Ordering>(c: C, x: K, y: K) -> Ordering {
    ordf(c)(x, y)
}

// the comparator can be called on everything and is a function of its arguments
pub open spec fn cmp_callable<K, C: Fn(&K, &K) -> Ordering>(c: C) -> bool {
    &&& forall|x: &K, y: &K| call_requires(c, (x, y))
    &&& forall|x: &K, y: &K, r: Ordering| call_ensures(c, (x, y), r) ==> r == ord(c, *x, *y)
}

// "consistent comparator": its answers form a strict weak order
#[verifier::opaque]
pub open spec fn cmp_laws<K, C: Fn(&K, &K) -> Ordering>(c: C) -> bool {
    &&& forall|x: K, y: K| (ord(c, x, y) == Ordering::Less) <==> (#[trigger] ord(c, y, x) == Ordering::Greater)
    &&& forall|x: K, y: K, z: K| ord(c, x, y) == Ordering::Less && ord(c, y, z) == Ordering::Less ==> ord(c, x, z) == Ordering::Less
    &&& forall|x: K, y: K, z: K| ord(c, x, y) == Ordering::Equal ==> ord(c, x, z) == ord(c, y, z)
}

// how a client establishes cmp_ok: exhibit the order its comparator computes
pub proof fn lemma_cmp_ok_intro<K, C: Fn(&K, &K) -> Ordering>(c: C, f: spec_fn(K, K) -> Ordering)
    requires describes(c, f), order_laws(f),
    ensures cmp_callable(c), cmp_laws(c),
{
    reveal(ord);
    let g = ordf(c);
    assert(describes(c, g) && order_laws(g));
    assert(cmp_laws(c)) by {
        reveal(cmp_laws);
        assert forall|x: K, y: K| (ord(c, x, y) == Ordering::Less) <==> (#[trigger] ord(c, y, x) == Ordering::Greater) by {
            assert((g(x, y) == Ordering::Less) <==> (g(y, x) == Ordering::Greater));
        }
    }
}

pub open spec fn cmp_ok<K, C: Fn(&K, &K) -> Ordering>(c: C) -> bool {
    cmp_callable(c) && cmp_laws(c)
}

pub proof fn law_flip<K, C: Fn(&K, &K) -> Ordering>(c: C, x: K, y: K)
    requires cmp_laws(c),
    ensures
        (ord(c, x, y) == Ordering::Less) <==> (ord(c, y, x) == Ordering::Greater),
        (ord(c, x, y) == Ordering::Greater) <==> (ord(c, y, x) == Ordering::Less),
        (ord(c, x, y) == Ordering::Equal) <==> (ord(c, y, x) == Ordering::Equal),
{
    reveal(cmp_laws);
    assert((ord(c, y, x) == Ordering::Less) <==> (ord(c, x, y) == Ordering::Greater));
}

pub proof fn law_trans<K, C: Fn(&K, &K) -> Ordering>(c: C, x: K, y: K, z: K)
    requires cmp_laws(c), ord(c, x, y) == Ordering::Less, ord(c, y, z) == Ordering::Less,
    ensures ord(c, x, z) == Ordering::Less,
{
    reveal(cmp_laws);
}

pub proof fn law_eq_left<K, C: Fn(&K, &K) -> Ordering>(c: C, x: K, y: K, z: K)
    requires cmp_laws(c), ord(c, x, y) == Ordering::Equal,
    ensures ord(c, x, z) == ord(c, y, z), ord(c, z, x) == ord(c, z, y),
{
    reveal(cmp_laws);
    law_flip(c, x, z);
    law_flip(c, y, z);
}

// ---- abstract view ----------------------------------------------------------------------
pub open spec fn inorder<K, V>(t: Option<Box<Node<K, V>>>) -> Seq<(K, V)>
    decreases t
{
    match t {
        None => Seq::empty(),
        Some(n) => inorder(n.left) + seq![(n.key, n.value)] + inorder(n.right),
    }
}

pub open spec fn nseq<K, V>(n: Node<K, V>) -> Seq<(K, V)> {
    inorder(n.left) + seq![(n.key, n.value)] + inorder(n.right)
}

// strictly increasing keys
pub open spec fn sorted<K, V, C: Fn(&K, &K) -> Ordering>(c: C, s: Seq<(K, V)>) -> bool {
    forall|i: int, j: int| 0 <= i < j < s.len() ==> ord(c, #[trigger] s[i].0, #[trigger] s[j].0) == Ordering::Less
}

// every key of s is below `key` / above `key`
pub open spec fn all_lt<K, V, C: Fn(&K, &K) -> Ordering>(c: C, s: Seq<(K, V)>, key: K) -> bool {
    forall|i: int| 0 <= i < s.len() ==> ord(c, key, #[trigger] s[i].0) == Ordering::Greater
}

pub open spec fn all_gt<K, V, C: Fn(&K, &K) -> Ordering>(c: C, s: Seq<(K, V)>, key: K) -> bool {
    forall|i: int| 0 <= i < s.len() ==> ord(c, key, #[trigger] s[i].0) == Ordering::Less
}

// ---- sequence lemmas ----------------------------------------------------------------------
pub proof fn lemma_sorted_sub<K, V, C: Fn(&K, &K) -> Ordering>(c: C, a: Seq<(K, V)>, m: Seq<(K, V)>, b: Seq<(K, V)>)
    requires sorted(c, a + m + b),
    ensures sorted(c, a), sorted(c, m), sorted(c, b), sorted(c, a + m), sorted(c, m + b),
{
    let s = a + m + b;
    assert forall|i: int, j: int| 0 <= i < j < a.len() implies ord(c, #[trigger] a[i].0, #[trigger] a[j].0) == Ordering::Less by {
        assert(s[i] == a[i]); assert(s[j] == a[j]);
    }
    assert forall|i: int, j: int| 0 <= i < j < m.len() implies ord(c, #[trigger] m[i].0, #[trigger] m[j].0) == Ordering::Less by {
        assert(s[a.len() + i] == m[i]); assert(s[a.len() + j] == m[j]);
    }
    assert forall|i: int, j: int| 0 <= i < j < b.len() implies ord(c, #[trigger] b[i].0, #[trigger] b[j].0) == Ordering::Less by {
        assert(s[a.len() + m.len() + i] == b[i]); assert(s[a.len() + m.len() + j] == b[j]);
    }
    assert forall|i: int, j: int| 0 <= i < j < (a + m).len() implies ord(c, #[trigger] (a + m)[i].0, #[trigger] (a + m)[j].0) == Ordering::Less by {
        assert(s[i] == (a + m)[i]); assert(s[j] == (a + m)[j]);
    }
    assert forall|i: int, j: int| 0 <= i < j < (m + b).len() implies ord(c, #[trigger] (m + b)[i].0, #[trigger] (m + b)[j].0) == Ordering::Less by {
        assert(s[a.len() + i] == (m + b)[i]); assert(s[a.len() + j] == (m + b)[j]);
    }
}

pub proof fn lemma_sorted_2<K, V, C: Fn(&K, &K) -> Ordering>(c: C, a: Seq<(K, V)>, b: Seq<(K, V)>)
    requires sorted(c, a + b),
    ensures sorted(c, a), sorted(c, b),
{
    assert(a + b =~= a + b + Seq::<(K, V)>::empty());
    lemma_sorted_sub(c, a, b, Seq::<(K, V)>::empty());
}

// head above key ==> everything above key
pub proof fn lemma_all_gt_from_head<K, V, C: Fn(&K, &K) -> Ordering>(c: C, s: Seq<(K, V)>, key: K)
    requires cmp_laws(c), sorted(c, s), s.len() > 0, ord(c, key, s[0].0) == Ordering::Less,
    ensures all_gt(c, s, key),
{
    assert forall|i: int| 0 <= i < s.len() implies ord(c, key, #[trigger] s[i].0) == Ordering::Less by {
        if i > 0 {
            assert(ord(c, s[0].0, s[i].0) == Ordering::Less);
            law_trans(c, key, s[0].0, s[i].0);
        }
    }
}

// last below key ==> everything below key
pub proof fn lemma_all_lt_from_last<K, V, C: Fn(&K, &K) -> Ordering>(c: C, s: Seq<(K, V)>, key: K)
    requires cmp_laws(c), sorted(c, s), s.len() > 0, ord(c, key, s[s.len() - 1].0) == Ordering::Greater,
    ensures all_lt(c, s, key),
{
    let l = s.len() - 1;
    assert forall|i: int| 0 <= i < s.len() implies ord(c, key, #[trigger] s[i].0) == Ordering::Greater by {
        law_flip(c, key, s[l].0);
        if i < l {
            assert(ord(c, s[i].0, s[l].0) == Ordering::Less);
            law_trans(c, s[i].0, s[l].0, key);
        }
        law_flip(c, key, s[i].0);
    }
}

pub proof fn lemma_all_cat<K, V, C: Fn(&K, &K) -> Ordering>(c: C, a: Seq<(K, V)>, b: Seq<(K, V)>, key: K)
    ensures
        all_lt(c, a, key) && all_lt(c, b, key) <==> all_lt(c, a + b, key),
        all_gt(c, a, key) && all_gt(c, b, key) <==> all_gt(c, a + b, key),
{
    let s = a + b;
    if all_lt(c, s, key) {
        assert forall|i: int| 0 <= i < a.len() implies ord(c, key, #[trigger] a[i].0) == Ordering::Greater by { assert(s[i] == a[i]); }
        assert forall|i: int| 0 <= i < b.len() implies ord(c, key, #[trigger] b[i].0) == Ordering::Greater by { assert(s[a.len() + i] == b[i]); }
    }
    if all_gt(c, s, key) {
        assert forall|i: int| 0 <= i < a.len() implies ord(c, key, #[trigger] a[i].0) == Ordering::Less by { assert(s[i] == a[i]); }
        assert forall|i: int| 0 <= i < b.len() implies ord(c, key, #[trigger] b[i].0) == Ordering::Less by { assert(s[a.len() + i] == b[i]); }
    }
}

// The situation at every exit of the splay loop: the root compares Equal to the key, or the
// key is below the root and the root has no left child, or above and no right child.
pub proof fn lemma_split<K, V, C: Fn(&K, &K) -> Ordering>(c: C, n: Node<K, V>, key: K)
    requires
        cmp_laws(c), sorted(c, nseq(n)),
        ord(c, key, n.key) == Ordering::Equal
          || (ord(c, key, n.key) == Ordering::Less && n.left.is_none())
          || (ord(c, key, n.key) == Ordering::Greater && n.right.is_none()),
    ensures all_lt(c, inorder(n.left), key), all_gt(c, inorder(n.right), key),
{
    let l = inorder(n.left);
    let r = inorder(n.right);
    let s = nseq(n);
    let e = (n.key, n.value);
    assert(s[l.len() as int] == e);
    assert forall|i: int| 0 <= i < l.len() implies ord(c, key, #[trigger] l[i].0) == Ordering::Greater by {
        assert(s[i] == l[i]);
        assert(ord(c, s[i].0, s[l.len() as int].0) == Ordering::Less);   // l[i] < n.key
        law_flip(c, l[i].0, n.key);
        if ord(c, key, n.key) == Ordering::Equal {
            law_eq_left(c, key, n.key, l[i].0);
        } else if ord(c, key, n.key) == Ordering::Greater {
            law_flip(c, key, n.key);
            law_trans(c, l[i].0, n.key, key);
            law_flip(c, key, l[i].0);
        }
    }
    assert forall|i: int| 0 <= i < r.len() implies ord(c, key, #[trigger] r[i].0) == Ordering::Less by {
        assert(s[l.len() + 1 + i] == r[i]);
        assert(ord(c, s[l.len() as int].0, s[l.len() + 1 + i].0) == Ordering::Less);   // n.key < r[i]
        if ord(c, key, n.key) == Ordering::Equal {
            law_eq_left(c, key, n.key, r[i].0);
        } else if ord(c, key, n.key) == Ordering::Less {
            law_trans(c, key, n.key, r[i].0);
        }
    }
}

// ---- the tree as a sorted map -------------------------------------------------------------
impl<K, V, C: Fn(&K, &K) -> Ordering> SplayTree<K, V, C> {
    // abstract value: the strictly sorted sequence of (key, value) pairs
    pub closed spec fn view(&self) -> Seq<(K, V)> {
        inorder(self.root)
    }

    pub closed spec fn cmp(&self) -> C {
        self.comparator
    }

    pub closed spec fn count(&self) -> usize {
        self.size
    }

    // representation invariant
    pub open spec fn wf(&self) -> bool {
        &&& cmp_ok(self.cmp())
        &&& sorted(self.cmp(), self.view())
        &&& self.count() == self.view().len()
    }
}

// no element of s compares Equal to key
pub open spec fn no_eq<K, V, C: Fn(&K, &K) -> Ordering>(c: C, s: Seq<(K, V)>, key: K) -> bool {
    forall|i: int| 0 <= i < s.len() ==> ord(c, key, #[trigger] s[i].0) != Ordering::Equal
}

// s[i] is the element that compares Equal to key
pub open spec fn eq_at<K, V, C: Fn(&K, &K) -> Ordering>(c: C, s: Seq<(K, V)>, key: K, i: int) -> bool {
    0 <= i < s.len() && ord(c, key, s[i].0) == Ordering::Equal
}

// s[i] is the first element above key (the successor of key)
pub open spec fn succ_at<K, V, C: Fn(&K, &K) -> Ordering>(c: C, s: Seq<(K, V)>, key: K, i: int) -> bool {
    &&& 0 <= i < s.len()
    &&& ord(c, key, s[i].0) == Ordering::Less
    &&& forall|j: int| 0 <= j < i ==> ord(c, key, #[trigger] s[j].0) != Ordering::Less
}

pub open spec fn no_succ<K, V, C: Fn(&K, &K) -> Ordering>(c: C, s: Seq<(K, V)>, key: K) -> bool {
    forall|j: int| 0 <= j < s.len() ==> ord(c, key, #[trigger] s[j].0) != Ordering::Less
}

// s[i] is the last element below key (the predecessor of key)
pub open spec fn pred_at<K, V, C: Fn(&K, &K) -> Ordering>(c: C, s: Seq<(K, V)>, key: K, i: int) -> bool {
    &&& 0 <= i < s.len()
    &&& ord(c, key, s[i].0) == Ordering::Greater
    &&& forall|j: int| i < j < s.len() ==> ord(c, key, #[trigger] s[j].0) != Ordering::Greater
}

pub open spec fn no_pred<K, V, C: Fn(&K, &K) -> Ordering>(c: C, s: Seq<(K, V)>, key: K) -> bool {
    forall|j: int| 0 <= j < s.len() ==> ord(c, key, #[trigger] s[j].0) != Ordering::Greater
}

// after a splay: where the root sits in the sequence, and what a lookup at the root means
pub proof fn lemma_root_lookup<K, V, C: Fn(&K, &K) -> Ordering>(c: C, n: Node<K, V>, key: K)
    requires all_lt(c, inorder(n.left), key), all_gt(c, inorder(n.right), key),
    ensures
        nseq(n)[inorder(n.left).len() as int] == (n.key, n.value),
        ord(c, key, n.key) == Ordering::Equal ==> eq_at(c, nseq(n), key, inorder(n.left).len() as int),
        ord(c, key, n.key) != Ordering::Equal ==> no_eq(c, nseq(n), key),
{
    let l = inorder(n.left);
    let r = inorder(n.right);
    let s = nseq(n);
    assert forall|i: int| 0 <= i < s.len() && i != l.len() implies ord(c, key, #[trigger] s[i].0) != Ordering::Equal by {
        if i < l.len() {
            assert(s[i] == l[i]);
        } else {
            assert(s[i] == r[i - l.len() - 1]);
        }
    }
}

// key is not below the root ==> key is not below anything in (left subtree + root)
pub proof fn lemma_prefix_not_above<K, V, C: Fn(&K, &K) -> Ordering>(c: C, n: Node<K, V>, key: K)
    requires cmp_laws(c), sorted(c, nseq(n)), ord(c, key, n.key) != Ordering::Less,
    ensures no_succ(c, inorder(n.left) + seq![(n.key, n.value)], key),
{
    let l = inorder(n.left);
    let s = nseq(n);
    let p = l + seq![(n.key, n.value)];
    assert(s[l.len() as int] == (n.key, n.value));
    assert forall|j: int| 0 <= j < p.len() implies ord(c, key, #[trigger] p[j].0) != Ordering::Less by {
        if j < l.len() {
            assert(p[j] == l[j]);
            assert(s[j] == l[j]);
            assert(ord(c, s[j].0, s[l.len() as int].0) == Ordering::Less);    // l[j] < n.key
            if ord(c, key, n.key) == Ordering::Equal {
                law_eq_left(c, key, n.key, l[j].0);
                law_flip(c, n.key, l[j].0);
            } else {
                law_flip(c, key, n.key);
                law_trans(c, l[j].0, n.key, key);
                law_flip(c, key, l[j].0);
            }
        } else {
            assert(p[j] == (n.key, n.value));
        }
    }
}

// key is not above the root ==> key is not above anything in (root + right subtree)
pub proof fn lemma_suffix_not_below<K, V, C: Fn(&K, &K) -> Ordering>(c: C, n: Node<K, V>, key: K)
    requires cmp_laws(c), sorted(c, nseq(n)), ord(c, key, n.key) != Ordering::Greater,
    ensures no_pred(c, seq![(n.key, n.value)] + inorder(n.right), key),
{
    let l = inorder(n.left);
    let r = inorder(n.right);
    let s = nseq(n);
    let p = seq![(n.key, n.value)] + r;
    assert(s[l.len() as int] == (n.key, n.value));
    assert forall|j: int| 0 <= j < p.len() implies ord(c, key, #[trigger] p[j].0) != Ordering::Greater by {
        if j > 0 {
            assert(p[j] == r[j - 1]);
            assert(s[l.len() + j] == r[j - 1]);
            assert(ord(c, s[l.len() as int].0, s[l.len() + j].0) == Ordering::Less);    // n.key < r[j-1]
            if ord(c, key, n.key) == Ordering::Equal {
                law_eq_left(c, key, n.key, r[j - 1].0);
            } else {
                law_trans(c, key, n.key, r[j - 1].0);
            }
        } else {
            assert(p[j] == (n.key, n.value));
        }
    }
}

pub proof fn lemma_no_cat<K, V, C: Fn(&K, &K) -> Ordering>(c: C, a: Seq<(K, V)>, b: Seq<(K, V)>, key: K)
    ensures
        no_succ(c, a, key) && no_succ(c, b, key) <==> no_succ(c, a + b, key),
        no_pred(c, a, key) && no_pred(c, b, key) <==> no_pred(c, a + b, key),
{
    let s = a + b;
    if no_succ(c, s, key) {
        assert forall|i: int| 0 <= i < a.len() implies ord(c, key, #[trigger] a[i].0) != Ordering::Less by { assert(s[i] == a[i]); }
        assert forall|i: int| 0 <= i < b.len() implies ord(c, key, #[trigger] b[i].0) != Ordering::Less by { assert(s[a.len() + i] == b[i]); }
    }
    if no_pred(c, s, key) {
        assert forall|i: int| 0 <= i < a.len() implies ord(c, key, #[trigger] a[i].0) != Ordering::Greater by { assert(s[i] == a[i]); }
        assert forall|i: int| 0 <= i < b.len() implies ord(c, key, #[trigger] b[i].0) != Ordering::Greater by { assert(s[a.len() + i] == b[i]); }
    }
}

// ---- sequence edits used in the insert / remove contracts ------------------------------------
pub open spec fn seq_ins<A>(s: Seq<A>, p: int, e: A) -> Seq<A> {
    s.subrange(0, p) + seq![e] + s.subrange(p, s.len() as int)
}

pub open spec fn seq_del<A>(s: Seq<A>, i: int) -> Seq<A> {
    s.subrange(0, i) + s.subrange(i + 1, s.len() as int)
}

pub proof fn lemma_sorted_insert<K, V, C: Fn(&K, &K) -> Ordering>(c: C, a: Seq<(K, V)>, e: (K, V), b: Seq<(K, V)>)
    requires cmp_laws(c), sorted(c, a + b), all_lt(c, a, e.0), all_gt(c, b, e.0),
    ensures sorted(c, a + seq![e] + b),
{
    let s = a + b;
    let t = a + seq![e] + b;
    assert forall|i: int, j: int| 0 <= i < j < t.len() implies ord(c, #[trigger] t[i].0, #[trigger] t[j].0) == Ordering::Less by {
        if j < a.len() {
            assert(t[i] == s[i]); assert(t[j] == s[j]);
        } else if j == a.len() {
            assert(t[i] == a[i]); assert(t[j] == e);
            law_flip(c, e.0, a[i].0);
        } else if i < a.len() {
            assert(t[i] == s[i]); assert(t[j] == s[j - 1]);
        } else if i == a.len() {
            assert(t[i] == e); assert(t[j] == b[j - a.len() - 1]);
        } else {
            assert(t[i] == s[i - 1]); assert(t[j] == s[j - 1]);
        }
    }
}

pub proof fn lemma_sorted_delete<K, V, C: Fn(&K, &K) -> Ordering>(c: C, a: Seq<(K, V)>, e: (K, V), b: Seq<(K, V)>)
    requires sorted(c, a + seq![e] + b),
    ensures sorted(c, a + b),
{
    let s = a + b;
    let t = a + seq![e] + b;
    assert forall|i: int, j: int| 0 <= i < j < s.len() implies ord(c, #[trigger] s[i].0, #[trigger] s[j].0) == Ordering::Less by {
        let ii = if i < a.len() { i } else { i + 1 };
        let jj = if j < a.len() { j } else { j + 1 };
        assert(t[ii] == s[i]); assert(t[jj] == s[j]);
    }
}

// sortedness only looks at keys
pub proof fn lemma_sorted_same_keys<K, V, C: Fn(&K, &K) -> Ordering>(c: C, s: Seq<(K, V)>, t: Seq<(K, V)>)
    requires sorted(c, s), s.len() == t.len(), forall|i: int| 0 <= i < s.len() ==> #[trigger] s[i].0 == t[i].0,
    ensures sorted(c, t),
{
    assert forall|i: int, j: int| 0 <= i < j < t.len() implies ord(c, #[trigger] t[i].0, #[trigger] t[j].0) == Ordering::Less by {
        assert(s[i].0 == t[i].0); assert(s[j].0 == t[j].0);
    }
}

// a sequence that is entirely below key and entirely above key is empty
pub proof fn lemma_lt_gt_empty<K, V, C: Fn(&K, &K) -> Ordering>(c: C, s: Seq<(K, V)>, key: K)
    requires all_lt(c, s, key), all_gt(c, s, key),
    ensures s.len() == 0,
{
    if s.len() > 0 {
        assert(ord(c, key, s[0].0) == Ordering::Less);
        assert(ord(c, key, s[0].0) == Ordering::Greater);
    }
}

// ---- consuming iterator ---------------------------------------------------------------------
impl<K, V> IntoIter<K, V> {
    // what is still to be yielded, front to back
    pub closed spec fn seq(&self) -> Seq<(K, V)> {
        inorder(self.cur)
    }

    pub closed spec fn rem(&self) -> usize {
        self.remaining
    }

    pub open spec fn wf(&self) -> bool {
        self.rem() == self.seq().len()
    }
}

// ---- the set wrapper: a SplayTree<T, ()> ------------------------------------------------------
impl<T, C: Fn(&T, &T) -> Ordering> SplaySet<T, C> {
    pub closed spec fn t(&self) -> SplayTree<T, (), C> {
        self.tree
    }

    pub open spec fn wf(&self) -> bool {
        self.t().wf()
    }

    // the elements in increasing order (paired with unit values)
    pub open spec fn view(&self) -> Seq<(T, ())> {
        self.t().view()
    }

    pub open spec fn cmp(&self) -> C {
        self.t().cmp()
    }
}

impl<T> SetIntoIter<T> {
    pub closed spec fn it(&self) -> IntoIter<T, ()> {
        self.inner
    }
}
