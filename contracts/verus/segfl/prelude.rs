// ======================================================================================
// Prelude of the segfl unit: the float parameter F of segment_intersection.rs is replaced by an ABSTRACT IEEE-754 number
// type (named R because the extraction rule X6 substitutes F -> R; it is NOT the real type of the segint unit).  Its
// arithmetic and comparisons are uninterpreted functions; the only facts available are the axioms below, each a theorem
// of IEEE-754 binary arithmetic (any precision, round-to-nearest):
//   AX-refl   x == x                      for every non-NaN x            (fin(x) implies non-NaN)
//   AX-asym   a < b implies not b < a
//   AX-mul0   z * x is a zero             if z is a zero and x is finite (+-0 * finite = +-0)
//   AX-add0   a + z == a                  if z is a zero and a is finite (a + +-0 = a; (-0) + (+0) = +0 == -0)
//   AX-mul1   o * x == x                  if o == 1 and x is finite      (1 * x is exact)
// They are ASSUMED (listed in the evidence); everything else about the arithmetic -- rounding, overflow, order -- is left
// unconstrained, so whatever is proved holds for f32 and f64 alike.
// What this unit decides (C04 "bit-identical to an input vertex ... no one-ulp drift"): when the computed parameter says
// that the intersection is an END POINT of one segment, intersection_impl returns that end point itself (== as floats),
// not a recomputed approximation of it.
// ======================================================================================
#[derive(Clone, Copy)]
pub struct R { pub bits: u64 }
#[derive(Clone, Copy)]
pub struct Coord<T> { pub x: T, pub y: T }
#[derive(Clone, Copy)]
pub struct BoundingBox<T> { pub min: Coord<T>, pub max: Coord<T> }

pub uninterp spec fn fadd(a: R, b: R) -> R;
pub uninterp spec fn fsub(a: R, b: R) -> R;
pub uninterp spec fn fmul(a: R, b: R) -> R;
pub uninterp spec fn fdiv(a: R, b: R) -> R;
pub uninterp spec fn feq(a: R, b: R) -> bool;   // IEEE ==
pub uninterp spec fn flt(a: R, b: R) -> bool;   // IEEE <
pub uninterp spec fn fin(a: R) -> bool;         // finite (neither NaN nor infinite)
pub uninterp spec fn fzero() -> R;
pub uninterp spec fn fone() -> R;
pub uninterp spec fn fmin(a: R, b: R) -> R;
pub uninterp spec fn fmax(a: R, b: R) -> R;

impl SubSpecImpl<R> for R {
    open spec fn obeys_sub_spec() -> bool { true }
    open spec fn sub_req(self, rhs: R) -> bool { true }
    open spec fn sub_spec(self, rhs: R) -> R { fsub(self, rhs) }
}
impl Sub for R { type Output = R; #[verifier::external_body] fn sub(self, rhs: R) -> (r: R) { unimplemented!() } }
impl AddSpecImpl<R> for R {
    open spec fn obeys_add_spec() -> bool { true }
    open spec fn add_req(self, rhs: R) -> bool { true }
    open spec fn add_spec(self, rhs: R) -> R { fadd(self, rhs) }
}
impl Add for R { type Output = R; #[verifier::external_body] fn add(self, rhs: R) -> (r: R) { unimplemented!() } }
impl MulSpecImpl<R> for R {
    open spec fn obeys_mul_spec() -> bool { true }
    open spec fn mul_req(self, rhs: R) -> bool { true }
    open spec fn mul_spec(self, rhs: R) -> R { fmul(self, rhs) }
}
impl Mul for R { type Output = R; #[verifier::external_body] fn mul(self, rhs: R) -> (r: R) { unimplemented!() } }
impl DivSpecImpl<R> for R {
    open spec fn obeys_div_spec() -> bool { true }
    open spec fn div_req(self, rhs: R) -> bool { true }   // IEEE division is total
    open spec fn div_spec(self, rhs: R) -> R { fdiv(self, rhs) }
}
impl Div for R { type Output = R; #[verifier::external_body] fn div(self, rhs: R) -> (r: R) { unimplemented!() } }
impl PartialEqSpecImpl for R {
    open spec fn obeys_eq_spec() -> bool { true }
    open spec fn eq_spec(&self, other: &R) -> bool { feq(*self, *other) }
}
impl PartialEq for R { #[verifier::external_body] fn eq(&self, other: &R) -> (b: bool) { unimplemented!() } }
impl PartialOrdSpecImpl for R {
    open spec fn obeys_partial_cmp_spec() -> bool { true }
    open spec fn partial_cmp_spec(&self, other: &R) -> Option<core::cmp::Ordering> {
        if flt(*self, *other) { Some(core::cmp::Ordering::Less) }
        else if flt(*other, *self) { Some(core::cmp::Ordering::Greater) }
        else if feq(*self, *other) { Some(core::cmp::Ordering::Equal) }
        else { None }
    }
}
impl PartialOrd for R { #[verifier::external_body] fn partial_cmp(&self, other: &R) -> (o: Option<core::cmp::Ordering>) { unimplemented!() } }
impl R {
    #[verifier::external_body] pub fn zero() -> (r: R) ensures r == fzero() { unimplemented!() }
    #[verifier::external_body] pub fn one() -> (r: R) ensures r == fone() { unimplemented!() }
    #[verifier::external_body] pub fn min(self, o: R) -> (r: R) ensures r == fmin(self, o) { unimplemented!() }
    #[verifier::external_body] pub fn max(self, o: R) -> (r: R) ensures r == fmax(self, o) { unimplemented!() }
}

// ---- the assumed IEEE-754 facts --------------------------------------------------------------------------------------
#[verifier::external_body]
pub proof fn ax_refl(x: R)
    requires fin(x),
    ensures feq(x, x),
{}
#[verifier::external_body]
pub proof fn ax_lt_asym(a: R, b: R)
    ensures flt(a, b) ==> !flt(b, a),
{}
#[verifier::external_body]
pub proof fn ax_mul0(z: R, x: R)
    requires feq(z, fzero()), fin(x),
    ensures feq(fmul(z, x), fzero()),
{}
#[verifier::external_body]
pub proof fn ax_add0(a: R, z: R)
    requires feq(z, fzero()), fin(a),
    ensures feq(fadd(a, z), a),
{}
#[verifier::external_body]
pub proof fn ax_mul1(o: R, x: R)
    requires feq(o, fone()), fin(x),
    ensures fmul(o, x) == x,
{}

// ---- specification vocabulary ----------------------------------------------------------------------------------------
pub open spec fn fin_pt(p: Coord<R>) -> bool { fin(p.x) && fin(p.y) }
pub open spec fn feq_pt(p: Coord<R>, q: Coord<R>) -> bool { feq(p.x, q.x) && feq(p.y, q.y) }
pub open spec fn vsub(p: Coord<R>, q: Coord<R>) -> Coord<R> { Coord { x: fsub(p.x, q.x), y: fsub(p.y, q.y) } }
pub open spec fn cross(a: Coord<R>, b: Coord<R>) -> R { fsub(fmul(a.x, b.y), fmul(a.y, b.x)) }
pub open spec fn dot(a: Coord<R>, b: Coord<R>) -> R { fadd(fmul(a.x, b.x), fmul(a.y, b.y)) }
pub open spec fn mid(p: Coord<R>, s: R, d: Coord<R>) -> Coord<R> { Coord { x: fadd(p.x, fmul(s, d.x)), y: fadd(p.y, fmul(s, d.y)) } }
// the float parameter is inside [0, 1] as far as the code's own test can tell
pub open spec fn in_unit(s: R) -> bool { !flt(s, fzero()) && !flt(fone(), s) }

// the quantities intersection_impl computes (float expressions, in the code's evaluation order)
pub open spec fn k_va(a1: Coord<R>, a2: Coord<R>) -> Coord<R> { vsub(a2, a1) }
pub open spec fn k_kross(a1: Coord<R>, a2: Coord<R>, b1: Coord<R>, b2: Coord<R>) -> R { cross(vsub(a2, a1), vsub(b2, b1)) }
pub open spec fn k_s(a1: Coord<R>, a2: Coord<R>, b1: Coord<R>, b2: Coord<R>) -> R { fdiv(cross(vsub(b1, a1), vsub(b2, b1)), k_kross(a1, a2, b1, b2)) }
pub open spec fn k_t(a1: Coord<R>, a2: Coord<R>, b1: Coord<R>, b2: Coord<R>) -> R { fdiv(cross(vsub(b1, a1), vsub(a2, a1)), k_kross(a1, a2, b1, b2)) }
// the non-parallel branch is taken and both parameters pass the range test
pub open spec fn crossing(a1: Coord<R>, a2: Coord<R>, b1: Coord<R>, b2: Coord<R>) -> bool {
    let k = k_kross(a1, a2, b1, b2);
    flt(fzero(), fmul(k, k)) && in_unit(k_s(a1, a2, b1, b2)) && in_unit(k_t(a1, a2, b1, b2))
}

// one of the two computed parameters is exactly 0 or 1
pub open spec fn at_endpoint(a1: Coord<R>, a2: Coord<R>, b1: Coord<R>, b2: Coord<R>) -> bool {
    let (s, t) = (k_s(a1, a2, b1, b2), k_t(a1, a2, b1, b2));
    feq(s, fzero()) || feq(s, fone()) || feq(t, fzero()) || feq(t, fone())
}
// the far end point as the code computes it for parameter 1: one rounding away from p2, no multiplication involved
pub open spec fn end_of(p1: Coord<R>, p2: Coord<R>) -> Coord<R> { Coord { x: fadd(p1.x, fsub(p2.x, p1.x)), y: fadd(p1.y, fsub(p2.y, p1.y)) } }

pub proof fn lemma_mid_at_zero(p: Coord<R>, s: R, d: Coord<R>)
    requires feq(s, fzero()), fin_pt(p), fin_pt(d),
    ensures feq_pt(mid(p, s, d), p),
{
    ax_mul0(s, d.x);
    ax_mul0(s, d.y);
    ax_add0(p.x, fmul(s, d.x));
    ax_add0(p.y, fmul(s, d.y));
}

pub proof fn lemma_mid_at_one(p: Coord<R>, s: R, d: Coord<R>)
    requires feq(s, fone()), fin_pt(d),
    ensures mid(p, s, d) == (Coord { x: fadd(p.x, d.x), y: fadd(p.y, d.y) }),
{
    ax_mul1(s, d.x);
    ax_mul1(s, d.y);
}
