

pub enum LineIntersection
{
    None,
    Point(Coord<R>),
    Overlap(Coord<R>, Coord<R>),
}

fn get_intersection_bounding_box(a1: Coord<R>, a2: Coord<R>, b1: Coord<R>, b2: Coord<R>) -> Option<BoundingBox<R>>
{
    let (a_start_x, a_end_x) = if a1.x < a2.x { (a1.x, a2.x) } else { (a2.x, a1.x) };
    let (a_start_y, a_end_y) = if a1.y < a2.y { (a1.y, a2.y) } else { (a2.y, a1.y) };
    let (b_start_x, b_end_x) = if b1.x < b2.x { (b1.x, b2.x) } else { (b2.x, b1.x) };
    let (b_start_y, b_end_y) = if b1.y < b2.y { (b1.y, b2.y) } else { (b2.y, b1.y) };
    let interval_start_x = a_start_x.max(b_start_x);
    let interval_start_y = a_start_y.max(b_start_y);
    let interval_end_x = a_end_x.min(b_end_x);
    let interval_end_y = a_end_y.min(b_end_y);
    if interval_start_x <= interval_end_x && interval_start_y <= interval_end_y {
        Some(BoundingBox {
            min: Coord {
                x: interval_start_x,
                y: interval_start_y,
            },
            max: Coord {
                x: interval_end_x,
                y: interval_end_y,
            },
        })
    } else {
        None
    }
}

fn constrain_to_bounding_box(p: Coord<R>, bb: BoundingBox<R>) -> Coord<R>
{
    Coord {
        x: if p.x < bb.min.x {
            bb.min.x
        } else if p.x > bb.max.x {
            bb.max.x
        } else {
            p.x
        },
        y: if p.y < bb.min.y {
            bb.min.y
        } else if p.y > bb.max.y {
            bb.max.y
        } else {
            p.y
        },
    }
}

pub fn intersection(a1: Coord<R>, a2: Coord<R>, b1: Coord<R>, b2: Coord<R>) -> LineIntersection
    //@ requires fin_pt(a1), fin_pt(a2), fin_pt(b1), fin_pt(b2), fin_pt(vsub(a2, a1)), fin_pt(vsub(b2, b1)),
{
    let bb = get_intersection_bounding_box(a1, a2, b1, b2);
    if let Some(bb) = bb {
        let inter = intersection_impl(a1, a2, b1, b2);
        match inter {
            LineIntersection::None => LineIntersection::None,
            LineIntersection::Point(p) => LineIntersection::Point(constrain_to_bounding_box(p, bb)),
            LineIntersection::Overlap(p1, p2) => {
                LineIntersection::Overlap(constrain_to_bounding_box(p1, bb), constrain_to_bounding_box(p2, bb))
            }
        }
    } else {
        LineIntersection::None
    }
}

fn intersection_impl(a1: Coord<R>, a2: Coord<R>, b1: Coord<R>, b2: Coord<R>) -> /*@ (res: @*/ LineIntersection /*@ ) @*/
    //@ requires
    //@     // the robust domain: finite coordinates whose differences do not overflow
    //@     fin_pt(a1), fin_pt(a2), fin_pt(b1), fin_pt(b2), fin_pt(vsub(a2, a1)), fin_pt(vsub(b2, b1)),
    //@ ensures
    //@     // C04, contract-step: an intersection that the computed parameters place at an END POINT of a segment is
    //@     // reported AS such an end point (== as floats for parameter 0, the single expression p1 + (p2 - p1) for
    //@     // parameter 1), not as a recomputed approximation of it.  Which of several coinciding end points is
    //@     // reported is left open: the property does not say.
    //@     crossing(a1, a2, b1, b2) ==> res is Point,
    //@     crossing(a1, a2, b1, b2) && at_endpoint(a1, a2, b1, b2) ==> {
    //@         ||| feq(k_s(a1, a2, b1, b2), fzero()) && feq_pt(res->Point_0, a1)
    //@         ||| feq(k_s(a1, a2, b1, b2), fone()) && res->Point_0 == end_of(a1, a2)
    //@         ||| feq(k_t(a1, a2, b1, b2), fzero()) && feq_pt(res->Point_0, b1)
    //@         ||| feq(k_t(a1, a2, b1, b2), fone()) && res->Point_0 == end_of(b1, b2)
    //@     },
    //@     // every other crossing is located on one of the segments at its computed parameter
    //@     crossing(a1, a2, b1, b2) && !at_endpoint(a1, a2, b1, b2) ==> {
    //@         ||| res->Point_0 == mid(a1, k_s(a1, a2, b1, b2), vsub(a2, a1))
    //@         ||| res->Point_0 == mid(b1, k_t(a1, a2, b1, b2), vsub(b2, b1))
    //@     },
    //@     // the range test: a parameter outside [0, 1] means no intersection
    //@     flt(fzero(), fmul(k_kross(a1, a2, b1, b2), k_kross(a1, a2, b1, b2))) && !(in_unit(k_s(a1, a2, b1, b2)) && in_unit(k_t(a1, a2, b1, b2)))
    //@         ==> res is None,
{
    // println!("{:?} {:?} {:?} {:?}", a1, a2, b1, b2);
    let va = Coord {
        x: a2.x - a1.x,
        y: a2.y - a1.y,
    };
    let vb = Coord {
        x: b2.x - b1.x,
        y: b2.y - b1.y,
    };
    let e = Coord {
        x: b1.x - a1.x,
        y: b1.y - a1.y,
    };
    let mut kross = cross_product(va, vb);
    let mut sqr_kross = kross * kross;
    let sqr_len_a = dot_product(va, va);

    //@ proof { ax_lt_asym(fzero(), sqr_kross); }
    if sqr_kross > R::zero() {
        let s = cross_product(e, vb) / kross;
        //@ proof { ax_lt_asym(fone(), s); ax_lt_asym(s, fone()); }
        if s < R::zero() || s > R::one() {
            return LineIntersection::None;
        }
        let t = cross_product(e, va) / kross;
        //@ proof { ax_lt_asym(fone(), t); ax_lt_asym(t, fone()); }
        //@ proof {
        //@     if feq(s, fzero()) { lemma_mid_at_zero(a1, s, va); }
        //@     if feq(s, fone()) { lemma_mid_at_one(a1, s, va); }
        //@     if feq(t, fzero()) { lemma_mid_at_zero(b1, t, vb); }
        //@     if feq(t, fone()) { lemma_mid_at_one(b1, t, vb); }
        //@ }
        if t < R::zero() || t > R::one() {
            return LineIntersection::None;
        }

        if s == R::zero() || s == R::one() {
            return LineIntersection::Point(mid_point(a1, s, va));
        }
        if t == R::zero() || t == R::one() {
            return LineIntersection::Point(mid_point(b1, t, vb));
        }

        return LineIntersection::Point(mid_point(a1, s, va));
    }

    kross = cross_product(e, va);
    sqr_kross = kross * kross;

    if sqr_kross > R::zero() {
        return LineIntersection::None;
    }

    let sa = dot_product(va, e) / sqr_len_a;
    let sb = sa + dot_product(va, vb) / sqr_len_a;
    let smin = sa.min(sb);
    let smax = sa.max(sb);

    if smin <= R::one() && smax >= R::zero() {
        if smin == R::one() {
            return LineIntersection::Point(mid_point(a1, smin, va));
        }
        if smax == R::zero() {
            return LineIntersection::Point(mid_point(a1, smax, va));
        }

        return LineIntersection::Overlap(
            mid_point(a1, smin.max(R::zero()), va),
            mid_point(a1, smax.min(R::one()), va),
        );
    }

    LineIntersection::None
}

fn mid_point(p: Coord<R>, s: R, d: Coord<R>) -> /*@ (res: @*/ Coord<R> /*@ ) @*/
    //@ ensures res == mid(p, s, d),
{
    Coord {
        x: p.x + s * d.x,
        y: p.y + s * d.y,
    }
}

fn cross_product(a: Coord<R>, b: Coord<R>) -> /*@ (res: @*/ R /*@ ) @*/
    //@ ensures res == cross(a, b),
{
    a.x * b.y - a.y * b.x
}

fn dot_product(a: Coord<R>, b: Coord<R>) -> /*@ (res: @*/ R /*@ ) @*/
    //@ ensures res == dot(a, b),
{
    a.x * b.x + a.y * b.y
}
