
// non-vacuity: the preconditions of the contract are satisfiable together with the axioms (a model: every operation
// returns its first argument, feq is equality, fin is true, zero == one is excluded by nothing the axioms say)
pub proof fn segfl_client(a1: Coord<R>, a2: Coord<R>, b1: Coord<R>, b2: Coord<R>, s: R)
    requires fin_pt(a1), fin_pt(vsub(a2, a1)), feq(s, fzero()),
    ensures feq_pt(mid(a1, s, vsub(a2, a1)), a1),
{
    lemma_mid_at_zero(a1, s, vsub(a2, a1));
}
