#!/usr/bin/env python3
"""mutate.py -- development aid (not a check): single-token mutants of selected /repo files, filtered by the existing
test suite; the survivors are the "realistic changes that still pass the tests" against which the checks are tried.

  mutate.py survivors <out.json> [workers]     enumerate mutants, keep those that compile and pass `cargo test`
  mutate.py show <out.json>

Works on private copies under /tmp; never touches /repo."""
import sys, os, re, json, subprocess, shutil, tempfile, concurrent.futures, hashlib

sys.path.insert(0, os.path.dirname(os.path.abspath(__file__)))
import rtok

REPO = "/repo"
FILES = {
    "lib/src/boolean/compute_fields.rs": None,
    "lib/src/boolean/possible_intersection.rs": None,
    "lib/src/boolean/divide_segment.rs": None,
    "lib/src/boolean/fill_queue.rs": None,
    "lib/src/boolean/sweep_event.rs": ("fn cmp", "fn is_below", "fn is_vertical"),
    "lib/src/boolean/compare_segments.rs": None,
    "lib/src/boolean/mod.rs": None,
    "lib/src/boolean/connect_edges.rs": ("fn precompute_iteration_order", "fn get_next_pos", "fn initialize_from_context"),
    "lib/src/boolean/segment_intersection.rs": None,
    "lib/src/boolean/subdivide_segments.rs": None,
    "lib/src/splay/tree.rs": None,
    "lib/src/splay/set.rs": None,
}
SWAPS = {"<": ["<=", ">"], "<=": ["<"], ">": [">=", "<"], ">=": [">"], "==": ["!="], "!=": ["=="], "&&": ["||"], "||": ["&&"],
         "true": ["false"], "false": ["true"], "se1": ["se2"], "se2": ["se1"], "other1": ["other2"], "other2": ["other1"],
         "x": ["y"], "y": ["x"], "min": ["max"], "max": ["min"], "left": ["right"], "right": ["left"],
         "Less": ["Greater"], "Greater": ["Less"], "prev": ["next"], "next": ["prev"], "subject": ["clipping"], "clipping": ["subject"],
         "+": ["-"], "-": ["+"], "0": ["1"], "1": ["0", "2"], "a1": ["a2"], "b1": ["b2"], "va": ["vb"], "vb": ["va"], "s": ["t"], "t": ["s"],
         "is_some": ["is_none"], "is_none": ["is_some"], "OutIn": ["InOut"], "InOut": ["OutIn"]}


def test_region(toks):
    """index where `#[cfg(test)] mod` starts (mutants only before it)"""
    for i, t in enumerate(toks):
        if t.text == "cfg" and i + 2 < len(toks) and toks[i + 2].text == "test":
            return i
    return len(toks)


def fn_ranges(toks, names):
    if names is None:
        return [(0, len(toks))]
    res = []
    for i, t in enumerate(toks):
        if t.text == "fn" and i + 1 < len(toks) and ("fn " + toks[i + 1].text) in names:
            j = i
            while toks[j].text != "{":
                j += 1
            res.append((i, rtok.match_close(toks, j)))
    return res


def enumerate_mutants():
    out = []
    for f, names in FILES.items():
        text = open(os.path.join(REPO, f)).read()
        toks, tail = rtok.tokenize(text)
        lim = test_region(toks)
        for lo, hi in fn_ranges(toks, names):
            for i in range(lo, min(hi, lim)):
                t = toks[i]
                if t.kind == "annot":
                    continue
                for rep in SWAPS.get(t.text, []):
                    out.append({"file": f, "tok": i, "line": t.line, "old": t.text, "new": rep})
                if t.text == "!" and i + 1 < len(toks) and toks[i + 1].kind in ("ident",) and (i == 0 or toks[i - 1].text != "debug_assert"):
                    out.append({"file": f, "tok": i, "line": t.line, "old": "!", "new": ""})
    return out


def apply(mut, root):
    p = os.path.join(root, mut["file"])
    toks, tail = rtok.tokenize(open(os.path.join(REPO, mut["file"])).read())
    toks[mut["tok"]].text = mut["new"]
    open(p, "w").write(rtok.render(toks, tail))


def worker(args):
    wid, muts = args
    root = f"/tmp/mutw-{wid}"
    if os.path.exists(root):
        shutil.rmtree(root)
    os.makedirs(root)
    subprocess.run(f"cd {REPO} && git archive HEAD | tar -x -C {root}", shell=True, check=True)
    env = dict(os.environ, CARGO_NET_OFFLINE="true", CARGO_TARGET_DIR=f"{root}/target")
    subprocess.run(["cargo", "test", "--workspace", "--offline", "--no-run"], cwd=root, env=env, capture_output=True)
    res = []
    for m in muts:
        orig = open(os.path.join(REPO, m["file"])).read()
        try:
            apply(m, root)
            p = subprocess.run(["cargo", "test", "--workspace", "--offline"], cwd=root, env=env, capture_output=True, text=True, timeout=300)
            out = p.stdout + p.stderr
            if "error" in out and "could not compile" in out:
                m["status"] = "nocompile"
            elif p.returncode == 0:
                m["status"] = "survives"
            else:
                m["status"] = "killed"
        except subprocess.TimeoutExpired:
            m["status"] = "timeout"
        finally:
            open(os.path.join(root, m["file"]), "w").write(orig)
        res.append(m)
    shutil.rmtree(root, ignore_errors=True)
    return res


def main():
    if sys.argv[1] == "survivors":
        out = sys.argv[2]
        workers = int(sys.argv[3]) if len(sys.argv) > 3 else 4
        muts = enumerate_mutants()
        print(len(muts), "mutants")
        chunks = [(w, muts[w::workers]) for w in range(workers)]
        res = []
        with concurrent.futures.ProcessPoolExecutor(workers) as ex:
            for r in ex.map(worker, chunks):
                res.extend(r)
        json.dump(res, open(out, "w"), indent=1)
        from collections import Counter
        print(Counter(m["status"] for m in res))
    elif sys.argv[1] == "show":
        for m in json.load(open(sys.argv[2])):
            if m["status"] == "survives":
                print(f"{m['file']}:{m['line']}  {m['old']} -> {m['new'] or '(removed)'}")


if __name__ == "__main__":
    main()
