#!/usr/bin/env python3
"""check.py <property-id> [--tier quick|thorough]

Decides one property of properties.jsonl by discharging the contract obligations listed for it in
contracts/plan.json against /repo's *current* working tree:

  * Verus units  (tools/vx.py):  real functions extracted and rewritten mechanically, contracts woven in,
                                 one obligation per function / lemma, Z3 back end;
  * Kani harnesses (tools/kx.py): the real crate in a scratch copy, `assume(pre); call; assert(post)` harnesses over
                                 full-domain symbolic inputs, CBMC + CaDiCaL back end.

Exit codes: 0 every obligation discharged (known findings are printed and do not fail the run);
            1 a violation: `VIOLATION property=<id> replay=<path>`;
            2 undecided (tool limit, lost anchor, proof step broken without a failing input) -- never an alarm.
Rewrites evidence/<id>.json on every run.
"""
import sys, os, json, time, re, shutil, subprocess, hashlib, datetime

HERE = os.path.dirname(os.path.abspath(__file__))
VERIF = os.path.dirname(HERE)
sys.path.insert(0, HERE)
import vx, kx

PLAN = json.load(open(os.path.join(VERIF, "contracts", "plan.json")))
LEDGER_PATH = os.path.join(VERIF, "contracts", "ledger.json")
KNOWN = os.path.join(VERIF, "known-findings.txt")
REPLAYS = os.path.join(VERIF, "replays")
EVIDENCE = os.path.join(VERIF, "evidence")


def load_known():
    """lines:  finding: property=<id> obligation=<name> match=<regex on failed-check text> :: <what fails>
               fixed: property=<id> <commit> <what failed>            (suppresses nothing)"""
    out = []
    if os.path.exists(KNOWN):
        for line in open(KNOWN):
            line = line.strip()
            if not line or line.startswith("#"):
                continue
            m = re.match(r"finding:\s+property=(\S+)\s+obligation=(\S+)\s+match=(.*?)\s+::\s+(.*)$", line)
            if m:
                out.append({"property": m.group(1), "obligation": m.group(2), "match": m.group(3), "text": m.group(4)})
    return out


def now_tag():
    return datetime.datetime.utcnow().strftime("%Y%m%dT%H%M%S")


def write_replay(prop, name, body):
    os.makedirs(REPLAYS, exist_ok=True)
    path = os.path.join(REPLAYS, f"{prop}-{name}-{now_tag()}.txt")
    with open(path, "w") as f:
        f.write(body)
    return path


def wait_for_memory(need_gb=16, max_wait_s=900):
    """a solver killed for memory next to other jobs is retried only when the machine has room again (bounded wait)"""
    t0 = time.time()
    while time.time() - t0 < max_wait_s:
        try:
            avail = int(re.search(r"MemAvailable:\s+(\d+)", open("/proc/meminfo").read()).group(1)) / 1e6
        except Exception:
            return
        if avail >= need_gb:
            return
        time.sleep(20)


def run_twin(scratch, twin, out_file):
    """bounded twin: native exhaustive run of the real code against a reference model (cfg(verif_replay) test)."""
    env = dict(os.environ, CARGO_NET_OFFLINE="true", RUSTFLAGS="--cfg verif_replay", VERIF_TWIN_OUT=out_file,
               CARGO_TARGET_DIR=os.path.join(scratch, "target-replay"))
    cmd = ["cargo", "test", "--offline", "--release", "--lib", "-p", "geo-booleanop", twin, "--", "--exact", "--nocapture", "--test-threads", "1"]
    try:
        p = subprocess.run(cmd, cwd=os.path.join(scratch, "lib"), capture_output=True, text=True, env=env, timeout=1500)
    except subprocess.TimeoutExpired:
        return "error", "twin timed out"
    out = p.stdout + "\n" + p.stderr
    if "TWIN-FAIL" in out:
        return "fails", out
    if p.returncode == 0 and "TWIN-PASS" in out:
        return "passes", out
    return "error", out


def main(argv):
    if len(argv) < 2 or argv[1] not in PLAN:
        print("usage: check.py <property> [--tier quick|thorough]; properties:", " ".join(sorted(PLAN)))
        return 2
    prop = argv[1]
    tier = os.environ.get("VERIF_TIER", "quick")
    if "--tier" in argv:
        tier = argv[argv.index("--tier") + 1]
    seed = int(os.environ.get("VERIF_SEED", "0") or 0)
    plan = PLAN[prop]
    ledger = json.load(open(LEDGER_PATH)) if os.path.exists(LEDGER_PATH) else {}
    known = [k for k in load_known() if k["property"] == prop]
    t0 = time.time()
    obligations = []      # {name, backend, ok, time_s, detail}
    violations = []       # {obligation, replay, note}
    undecided = []        # reasons
    known_hits = []
    functions_under_contract = {}
    rewrite_rules = {}
    assumption_scan = {}
    checker_cmds = []
    bounded = []
    samples = []
    edits_seen = []

    # ------------------------------------------------------------------ Verus units
    vunits = plan.get("verus", [])
    vfail_units = []
    for unit in vunits:
        try:
            pr, text = vx.verify_unit(unit)
        except vx.VxError as e:
            undecided.append(f"verus/{unit}: {e}")
            continue
        except subprocess.TimeoutExpired:
            undecided.append(f"verus/{unit}: verus timed out")
            continue
        checker_cmds.append(pr["checker_cmd"])
        for sec in pr["extraction"]["sections"]:
            functions_under_contract[sec["src"]] = {"kept_items": sec["kept_items"], "dropped_items": sec["dropped_items"],
                                                    "sha_extracted": sec["sha_extracted"], "sha_rewritten": sec["sha_rewritten"],
                                                    "unchanged_since_contracts_written": sec["unchanged_since_contracts_written"],
                                                    "code_tokens": sec["code_tokens"], "annotation_tokens": sec["annotation_tokens"]}
            for r, n in sec["rules"].items():
                rewrite_rules[f"{unit}:{sec['src']}:{r}"] = n
        edits_seen.extend(pr["extraction"]["edits"])
        assumption_scan[f"verus/{unit}"] = pr["assumption_scan"]
        if pr["status"] == "tool":
            undecided.append(f"verus/{unit}: {pr.get('reason', 'tool failure')}: " + "; ".join(e["msg"] for e in pr.get("errors", [])[:3]))
            continue
        names = set()
        for o in pr["obligations"]:
            names.add(o["name"])
            obligations.append({"name": f"verus/{unit}/{o['name']}", "backend": "verus+z3", "ok": o["ok"], "time_s": o["time_s"], "mode": o["mode"]})
        # ledger: every obligation that existed when the contracts were written must still be generated
        missing = [n for n in ledger.get(f"verus/{unit}", []) if n not in names]
        if missing:
            undecided.append(f"verus/{unit}: obligations missing from this run (lost anchor): {missing[:5]}")
        if pr["status"] == "fail":
            vfail_units.append((unit, pr, text))
        # vacuity canary: with `ensures false` appended the unit must fail
        if pr["status"] == "ok":
            try:
                cpr, _ = vx.verify_unit(unit, canary=True)
                bad = [f for f in cpr.get("failures", []) if f["obligation"].endswith("vx_canary_must_fail")]
                if cpr["status"] != "fail" or not bad:
                    undecided.append(f"verus/{unit}: vacuity canary was NOT refuted (inconsistent assumptions?)")
            except Exception as e:
                undecided.append(f"verus/{unit}: canary run failed: {e}")

    # ------------------------------------------------------------------ Kani harnesses
    kplan = plan.get("kani", {})
    primary_universe, universe_recheck = None, None
    harnesses = list(kplan.get("quick", []))
    if tier == "thorough":
        harnesses += [h for h in kplan.get("thorough", []) if h not in harnesses]
    hinfo = PLAN.get("_harness_info", {})
    scratch = None
    need_scratch = bool(harnesses) or bool(vfail_units) or bool(plan.get("native"))
    try:
        if need_scratch:
            try:
                scratch = kx.make_scratch()
            except kx.KxError as e:
                undecided.append(f"kani: {e}")
                harnesses = []
        if harnesses:
            jobs = int(os.environ.get("VERIF_JOBS", "4"))
            r = kx.run_kani(scratch, harnesses, jobs=jobs, timeout_s=int(plan.get("harness_timeout_s", 1500)))
            checker_cmds.append(r["cmd"])
            results = r["results"]
            # a harness without verdict (CBMC killed for memory while running next to others, timeout under load) gets one
            # more chance on its own before it is reported as undecided
            retry = [h for h in harnesses if h not in results or results[h]["status"] not in ("ok", "fail")]
            if retry and len(harnesses) > 1:
                for h in retry:
                    wait_for_memory()
                    r2 = kx.run_kani(scratch, [h], jobs=1, timeout_s=int(plan.get("harness_timeout_s", 1500)) * 2)
                    if h in r2["results"]:
                        results[h] = r2["results"][h]
                        results[h]["retried_alone"] = True
            if not results:
                undecided.append("kani: no harness results (build failed?): " + r["raw"][-1500:])
            # thorough tier: the quick harnesses are run once more in a build with different crate hashes; a verdict that
            # depends on the build (DESIGN 11.8) is no verdict
            primary_universe = kx.current_universe(scratch)
            if tier == "thorough" and results and os.environ.get("VERIF_NO_UNIVERSE_RECHECK") != "1":
                alt = [u for u in kx.UNIVERSES if u != kx.current_universe(scratch)][0]
                qh = list(kplan.get("quick", []))
                sc2 = None
                try:
                    sc2 = kx.make_scratch(universe=alt)
                    r2 = kx.run_kani(sc2, qh, jobs=jobs, timeout_s=int(plan.get("harness_timeout_s", 1500)))
                    universe_recheck = {"universe": alt, "harnesses": {}}
                    for h in qh:
                        a, b = (results.get(h) or {}).get("status"), (r2["results"].get(h) or {}).get("status")
                        universe_recheck["harnesses"][h] = b
                        if a in ("ok", "fail") and b in ("ok", "fail") and a != b:
                            undecided.append(f"kani/{h}: verdict '{a}' in the primary build, '{b}' in a build with different crate hashes (universe {alt}); tool instability")
                except Exception as e:
                    universe_recheck = {"universe": alt, "error": str(e)[:200]}
                finally:
                    if sc2:
                        shutil.rmtree(sc2, ignore_errors=True)
            for h in harnesses:
                res = results.get(h)
                info = hinfo.get(h, {})
                if res is None:
                    undecided.append(f"kani/{h}: harness not generated or not run (lost anchor)")
                    continue
                ob = {"name": f"kani/{h}", "backend": "kani+cbmc+cadical", "ok": res["status"] == "ok", "time_s": res["time_s"],
                      "clauses": res.get("clauses", [])[:12],
                      "cbmc_checks": res.get("checks"), "covers": f"{res.get('cover_satisfied', 0)}/{res.get('cover_total', 0)}",
                      "bounded": info.get("bounded")}
                if res["status"] == "fail" and res["failed_checks"]:
                    kf = [k for k in known if k["obligation"] == f"kani/{h}" and all(re.search(k["match"], fc) for fc in res["failed_checks"])]
                    if kf:
                        # a listed finding: reported, not counted as an obligation of this run, never a violation
                        known_hits.extend(kf)
                        continue
                if info.get("bounded"):
                    # a bounded stand-in: reported, never counted as a discharged proof obligation
                    bounded.append({"harness": h, "bound": info["bounded"], "result": res["status"], "time_s": res["time_s"],
                                    "cbmc_checks": res.get("checks"), "covers": ob["covers"]})
                else:
                    obligations.append(ob)
                if res["status"] == "ok":
                    if res.get("cover_total", 0) and res.get("cover_satisfied", 0) != res.get("cover_total", 0):
                        undecided.append(f"kani/{h}: only {res['cover_satisfied']}/{res['cover_total']} cover properties reachable (vacuity)")
                        ob["ok"] = False
                    want = info.get("covers")
                    if want is not None and res.get("cover_total", 0) < want:
                        undecided.append(f"kani/{h}: {res.get('cover_total', 0)} cover properties, ledger expects {want}")
                        ob["ok"] = False
                    continue
                if res["status"] != "fail":
                    undecided.append(f"kani/{h}: no verdict (timeout / out of memory / unsupported construct)")
                    continue
                # ---- failed harness: known finding?  else counterexample -> native replay on the real code
                failed_txt = " | ".join(res["failed_checks"])
                try:
                    fails, pout = kx.concrete_playback(scratch, h)
                except subprocess.TimeoutExpired:
                    fails, pout = [], "concrete playback timed out"
                verdict = None
                for c in fails:
                    rp = os.path.join(REPLAYS, f"{prop}-{h}-{now_tag()}.replay")
                    os.makedirs(REPLAYS, exist_ok=True)
                    kx.write_replay_file(rp, h, c["vals"], f"property {prop}; failed obligation kani/{h}: {c['desc']}\nreplay: python3 tools/kx.py replay {rp} {info.get('module', 'boolean')}")
                    st, rout = kx.native_replay(scratch, rp, module=info.get("module", "boolean"))
                    if st == "fails":
                        with open(rp, "a") as f:
                            f.write("# native replay against the real code FAILS:\n" + "".join("# " + l + "\n" for l in rout.splitlines() if "panicked" in l or "C0" in l or "C1" in l))
                        violations.append({"obligation": f"kani/{h}", "replay": rp, "note": c["desc"]})
                        verdict = "violation"
                        break
                    else:
                        os.remove(rp)
                        verdict = st
                if verdict != "violation":
                    # No input replays on the real code, so CBMC's word is all there is.  CBMC 6.11 / Kani 0.68 verdicts were
                    # observed to depend on the build (DESIGN 11.8), so the refutation is believed only if
                    #  (a) it does not carry the signature of that instability (memory-safety failures inside the Rust
                    #      standard library: the code under contract in boolean/ has no unsafe code that could cause them), and
                    #  (b) it is reproduced, with a common failed assertion, in two builds whose crate hashes differ.
                    std_mem = [loc for fc, loc in zip(res["failed_checks"], res.get("failed_locations", []) + [""] * len(res["failed_checks"]))
                               if fc.startswith("dereference failure") and "/rustlib/src/rust/library/" in (loc or "")]
                    if std_mem:
                        undecided.append(f"kani/{h}: refuted, but with memory-safety failures inside the standard library ({len(std_mem)}), the signature "
                                         "of the build-dependent CBMC/Kani behaviour described in DESIGN 11.8; no verdict")
                        continue
                    primary_u = kx.current_universe(scratch)
                    mine = {fc for fc in res["failed_checks"]}
                    confirmed, unstable = 0, None
                    for u in [u for u in kx.UNIVERSES if u != primary_u][:2]:
                        sc2 = None
                        try:
                            sc2 = kx.make_scratch(universe=u)
                            r2 = kx.run_kani(sc2, [h], jobs=1, timeout_s=int(plan.get("harness_timeout_s", 1500)) * 2)
                            res2 = r2["results"].get(h)
                        except Exception as e:
                            res2 = None
                        finally:
                            if sc2:
                                shutil.rmtree(sc2, ignore_errors=True)
                        if res2 is not None and res2["status"] == "fail" and mine & set(res2["failed_checks"]):
                            confirmed += 1
                        else:
                            unstable = f"universe {u}: " + (res2["status"] if res2 else "no result")
                            break
                    ob["universes_confirming"] = confirmed + 1
                    if unstable:
                        undecided.append(f"kani/{h}: refuted in the primary build ({failed_txt[:200]}) but not reproduced in a build with different "
                                         f"crate hashes ({unstable}); tool instability, no verdict")
                        continue
                    # the obligation was discharged on the unchanged tree and is refuted now, but no input replays on the real
                    # code (for harnesses marked `oracle`: the counterexample may use an answer of a stubbed dependency --
                    # orientation, intersection -- that is allowed by its contract but that the real dependency does not give
                    # on these coordinates; the function is verified against the callee's contract, not its body)
                    note = ("the harness replaces dependencies by contract stubs (oracle); the counterexample found by CBMC is valid against "
                            "those contracts but did not reproduce with the real dependencies\n" if info.get("oracle") else "")
                    note += f"the refutation was reproduced in {confirmed + 1} builds with different crate hashes (universes, DESIGN 11.8)\n"
                    rp = write_replay(prop, h, f"failed obligation: kani/{h}\nfailed checks: {failed_txt}\n{note}no concrete counterexample could be replayed ({verdict})\n\n" + r["raw"][-4000:])
                    violations.append({"obligation": f"kani/{h}", "replay": rp, "note": "no-failing-input-found"})

        # ---- native bounded stand-ins (exhaustive execution of the real code up to a stated bound; never counted as proof)
        for nb in plan.get("native", []):
            if scratch is None:
                break
            tout = os.path.join(REPLAYS, f"{prop}-{nb['name']}-{now_tag()}.txt")
            os.makedirs(REPLAYS, exist_ok=True)
            tn0 = time.time()
            st, tlog = run_twin(scratch, nb["test"], tout)
            m = re.search(r"TWIN-PASS[^\n]*", tlog)
            bounded.append({"native_test": nb["test"], "bound": nb["bound"], "result": st, "time_s": round(time.time() - tn0, 1),
                            "summary": m.group(0) if m else None})
            if st == "fails":
                violations.append({"obligation": f"native/{nb['name']} (bounded)", "replay": tout, "note": "failing input found by bounded native check"})
            else:
                if os.path.exists(tout):
                    os.remove(tout)
                if st != "passes":
                    undecided.append(f"native/{nb['name']}: could not be run: " + tlog[-600:])

        # ---- Verus failures: bounded twin looks for a failing input on the real code
        for unit, pr, text in vfail_units:
            ucfg = vx.load_unit(unit)
            fails = pr["failures"]
            contract_fail = [f for f in fails if f["kind"] == "contract"]
            body = f"property {prop}; Verus unit {unit}\nfailed obligations:\n" + "".join(
                f"  {f['obligation']}: {f['msg']} (generated line {f['line']}, {f['kind']})\n" for f in fails)
            body += "\ncode edits relative to the text the contracts were written on:\n" + json.dumps(pr["extraction"]["edits"], indent=1)
            body += "\n\nverifier output:\n" + pr["stderr_head"]
            twin = ucfg.get("twin")
            tw = None
            if twin and scratch:
                tout = os.path.join(REPLAYS, f"{prop}-{unit}-twin-{now_tag()}.txt")
                os.makedirs(REPLAYS, exist_ok=True)
                tw, tlog = run_twin(scratch, twin, tout)
                if tw == "fails":
                    with open(tout, "a") as f:
                        f.write("\n# ---- found by the bounded twin after the proof failed ----\n" + "".join("# " + l + "\n" for l in body.splitlines()))
                    violations.append({"obligation": f"verus/{unit}/" + ",".join(sorted({f['obligation'] for f in fails})), "replay": tout, "note": "failing input found by bounded twin"})
                    continue
                elif os.path.exists(tout):
                    os.remove(tout)
            if contract_fail:
                rp = write_replay(prop, unit, body + f"\n\nbounded twin: {tw or 'none'}\n")
                violations.append({"obligation": f"verus/{unit}/" + ",".join(sorted({f['obligation'] for f in contract_fail})), "replay": rp, "note": "no-failing-input-found"})
            else:
                undecided.append(f"verus/{unit}: only intermediate proof steps failed ({', '.join(sorted({f['obligation'] for f in fails}))}); "
                                 f"no contract clause refuted and the bounded twin found no failing input -> undecided")
    finally:
        if scratch and not os.environ.get("KX_KEEP"):
            shutil.rmtree(scratch, ignore_errors=True)

    # ------------------------------------------------------------------ assumption scan of the Kani harness sources
    if harnesses:
        kscan = {}
        for root, _, files in os.walk(os.path.join(VERIF, "kani")):
            for fn in files:
                if not fn.endswith(".rs"):
                    continue
                txt = open(os.path.join(root, fn)).read()
                rel = os.path.relpath(os.path.join(root, fn), VERIF)
                used = [h for h in harnesses if re.search(r"\b" + re.escape(h) + r"\b", txt)]
                if not used:
                    continue
                kscan[rel] = {"harnesses_here": used,
                              "assume_calls": len(re.findall(r"\.assume\(|kani::assume\(", txt)),
                              "stubs": sorted(set(re.sub(r"\s+", " ", m) for m in re.findall(r"#\[kani::stub\(([^\]]*)\)\]", txt))),
                              "unsafe_blocks": len(re.findall(r"\bunsafe\b", txt))}
        assumption_scan["kani"] = kscan

    # ------------------------------------------------------------------ verdict + evidence
    n_ob = len(obligations)
    n_ok = sum(1 for o in obligations if o["ok"])
    if n_ob == 0 and not bounded and not undecided:
        undecided.append("no obligations were generated")
    wall = time.time() - t0
    by_backend = {}
    for o in obligations:
        b = by_backend.setdefault(o["backend"], {"obligations": 0, "discharged": 0, "solver_time_s": 0.0})
        b["obligations"] += 1
        b["discharged"] += 1 if o["ok"] else 0
        b["solver_time_s"] += o["time_s"] or 0.0
    for b in by_backend.values():
        b["solver_time_s"] = round(b["solver_time_s"], 2)
    for o in obligations[:3] + obligations[-3:]:
        samples.append({k: v for k, v in o.items()})
    ev = {
        "property_id": prop, "tier": tier, "seed": seed, "level": "proof",
        "coverage": {
            "obligations": n_ob, "discharged": n_ok,
            "checker_cmd": " ;; ".join(checker_cmds) or "none",
            "trusted_base": plan.get("trusted_base", []) + PLAN.get("_trusted_base_common", []),
            "by_backend": by_backend,
            "functions_under_contract": plan.get("functions_under_contract", []),
            "extracted_sources": functions_under_contract,
            "rewrite_rules_fired": rewrite_rules,
            "code_edits_since_contracts_written": edits_seen[:40],
            "bounded_standins": bounded,
            "undecided_clauses": plan.get("undecided_clauses", []),
            "assumption_scan": assumption_scan,
            "obligation_list": [{"name": o["name"], "ok": o["ok"], "time_s": o["time_s"], **({"bounded": o["bounded"]} if o.get("bounded") else {})} for o in obligations],
            "samples": samples,
            "undecided_this_run": undecided,
            "known_findings_hit": [k["text"] for k in known_hits],
            "build_universe": {"primary": primary_universe, "recheck": universe_recheck,
                               "note": "Kani verdicts are taken in the build given by /repo's Cargo.lock; an unreplayable refutation must be reproduced in two builds with different crate hashes, the thorough tier re-runs the quick harnesses in one (DESIGN 11.8)"},
            "explanation": plan.get("explanation", ""),
        },
        "assumptions": plan.get("assumptions", []) + PLAN.get("_assumptions_common", []),
        "wall_s": round(wall, 2),
        "violations": len(violations),
    }
    os.makedirs(EVIDENCE, exist_ok=True)
    with open(os.path.join(EVIDENCE, f"{prop}.json"), "w") as f:
        json.dump(ev, f, indent=1)

    for k in known_hits:
        print(f"KNOWN-FINDING: property={prop} {k['text']}")
    for v in violations:
        tail = " no-failing-input-found" if v["note"] == "no-failing-input-found" else ""
        print(f"failed obligation: {v['obligation']} ({v['note']})")
        print(f"VIOLATION property={prop} replay={v['replay']}{tail}")
    print(f"{prop} [{tier}]: {n_ok}/{n_ob} obligations discharged, {len(violations)} violation(s), {len(undecided)} undecided, {wall:.0f}s")
    if violations:
        return 1
    if undecided:
        for u in undecided:
            print("UNDECIDED:", u)
        return 2
    return 0


if __name__ == "__main__":
    sys.exit(main(sys.argv))
