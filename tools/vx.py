#!/usr/bin/env python3
"""vx.py -- Verus path: extract real functions from /repo on every run, apply the fixed rewrite
rules, weave in the contract annotations kept in /verif/contracts/verus/<unit>/, run Verus on the
single generated file, and report one obligation per verified function.

A *template* is the rewritten text of the extracted items as it was when the contracts were
written, plus annotation comments:

    //@ requires ...            (whole-line annotation: the text after `//@` is Verus text)
    /*@ (res: @*/ T /*@ ) @*/   (inline annotation)

Erasing the annotation comments from a template gives ordinary Rust.  On every run the current
/repo text is extracted and rewritten again, and the annotations are transplanted onto it by a
token-level alignment (difflib) -- so the verified text is always /repo's code of *now* plus
annotations, never the template's code.  `weave()` checks that erasing the annotations from its
output yields exactly the freshly extracted tokens.
"""
import sys, os, re, json, hashlib, difflib, subprocess, tempfile, time, shutil

sys.path.insert(0, os.path.dirname(os.path.abspath(__file__)))
import rtok
from rtok import Tok

VERIF = os.path.dirname(os.path.dirname(os.path.abspath(__file__)))
REPO = os.environ.get("VERIF_REPO", "/repo")
CONTRACTS = os.path.join(VERIF, "contracts", "verus")


class VxError(Exception):
    """tool-level failure: exit 2, never an alarm"""


# --------------------------------------------------------------------------- extraction

def item_label(it):
    return f"{it.kind} {it.name}"


def select_items(toks, spec):
    """Return list of (start,end) token ranges to delete, according to spec['drop'] / spec['keep'].

    drop: regexes matched (re.search) against "kind name" of any item, at any nesting level.
    keep: if given, top-level items not matching any keep-regex are dropped as well.
    require: regexes that must each match at least one surviving item (else the unit lost its anchor).
    """
    items = rtok.parse_items(toks, 0, len(toks))
    drop = [re.compile(r) for r in spec.get("drop", [])]
    keep = [re.compile(r) for r in spec.get("keep", [])] if "keep" in spec else None
    ranges = []
    survivors = []

    def walk(its, top):
        for it in its:
            lab = item_label(it)
            if any(r.search(lab) for r in drop) or (top and keep is not None and not any(r.search(lab) for r in keep)):
                ranges.append((it.start, it.end, lab))
                continue
            survivors.append(lab)
            walk(it.children, False)

    walk(items, True)
    for r in spec.get("require", []):
        if not any(re.search(r, s) for s in survivors):
            raise VxError(f"required item /{r}/ not found in {spec['src']} (lost anchor)")
    return ranges, survivors


def delete_ranges(toks, ranges):
    dead = set()
    for a, b, _ in ranges:
        dead.update(range(a, b))
    return [t for i, t in enumerate(toks) if i not in dead]


# --------------------------------------------------------------------------- rewrite rules
# every rule: (tokens) -> (tokens, times_fired).  Rules only touch code tokens.

def T(text, like=None, kind=None):
    if kind is None:
        kind = "ident" if re.match(r"[A-Za-z_]", text) else "punct"
    return Tok(kind, text, " " if like is None else like.trivia, like.line if like else 0, "rule")


def find_seq(toks, pat, start=0):
    n = len(pat)
    for i in range(start, len(toks) - n + 1):
        if all(toks[i + k].text == pat[k] for k in range(n)):
            return i
    return -1


def rule_drop_attrs(toks, names=("derive", "allow", "cfg", "inline")):
    out, fired, i = [], 0, 0
    while i < len(toks):
        t = toks[i]
        if t.text == "#" and i + 2 < len(toks) and toks[i + 1].text == "[" and toks[i + 2].text in names:
            j = rtok.match_close(toks, i + 1)
            if toks[i + 2].text == "cfg":
                # #[cfg(feature = "debug-booleanop")] <item or statement>: drop the attribute AND what it guards
                inner = " ".join(x.text for x in toks[i + 3:j])
                if "debug-booleanop" in inner or inner.strip("() ") == "test":
                    k = j + 1
                    depth = 0
                    while k < len(toks):
                        x = toks[k]
                        if x.text in ("(", "[", "{"):
                            k = rtok.match_close(toks, k)
                            if x.text == "{" :
                                # block-like statement/item ends here unless followed by `;`
                                if k + 1 < len(toks) and toks[k + 1].text == ";":
                                    k += 1
                                break
                        elif x.text == ";":
                            break
                        k += 1
                    nxt = k + 1
                    if nxt < len(toks):
                        toks[nxt].trivia = t.trivia
                    i = nxt
                    fired += 1
                    continue
                out.append(t)
                i += 1
                continue
            if j + 1 < len(toks):
                toks[j + 1].trivia = t.trivia
            i = j + 1
            fired += 1
            continue
        out.append(t)
        i += 1
    return out, fired


def rule_unsafecell(toks):
    out, fired, i = [], 0, 0
    while i < len(toks):
        t = toks[i]
        if t.text == "UnsafeCell" and i + 1 < len(toks) and toks[i + 1].text == "<":
            # find matching '>' (angle depth)
            d, j = 0, i + 1
            while True:
                if toks[j].text == "<":
                    d += 1
                elif toks[j].text == ">":
                    d -= 1
                    if d == 0:
                        break
                j += 1
            inner = toks[i + 2:j]
            inner[0].trivia = t.trivia
            out.extend(inner)
            i = j + 1
            fired += 1
            continue
        if t.text == "UnsafeCell" and [x.text for x in toks[i + 1:i + 4]] == ["::", "new", "("]:
            j = rtok.match_close(toks, i + 3)
            inner = toks[i + 4:j]
            inner[0].trivia = t.trivia
            out.extend(inner)
            i = j + 1
            fired += 1
            continue
        out.append(t)
        i += 1
    return out, fired


def rule_root_access(toks):
    out, fired, i = [], 0, 0
    while i < len(toks):
        t = toks[i]
        if t.text == "self" and [x.text for x in toks[i + 1:i + 5]] in (["." , "root_mut", "(", ")"], [".", "root_ref", "(", ")"]):
            mut = toks[i + 2].text == "root_mut"
            seq = [T("(", t), T("&", kind="punct")]
            seq[1].trivia = ""
            if mut:
                m = T("mut"); m.trivia = ""
                seq.append(m)
            s = T("self"); s.trivia = " " if mut else ""
            d = T("."); d.trivia = ""
            r = T("root"); r.trivia = ""
            c = T(")"); c.trivia = ""
            seq += [s, d, r, c]
            out.extend(seq)
            i += 5
            fired += 1
            continue
        out.append(t)
        i += 1
    return out, fired


def fn_items(toks):
    """all fn items at any depth: yields Item"""
    res = []

    def walk(its):
        for it in its:
            if it.kind == "fn":
                res.append(it)
            walk(it.children)

    walk(rtok.parse_items(toks, 0, len(toks)))
    return res


def rule_self_mut(toks, state):
    """X3: a method whose body now mutably borrows self.root (directly, or by calling such a method
    on self / self.tree) takes `&mut self` instead of `&self`; a by-value `self` that is so mutated
    is rebound (`let mut this = self;`)."""
    mutating = state.setdefault("mutating", set())
    fired = 0
    changed = True
    while changed:
        changed = False
        for it in fn_items(toks):
            if it.body is None or it.name in mutating:
                continue
            body = toks[it.body[0]:it.body[1]]
            txt = " ".join(x.text for x in body)
            direct = "& mut self . root" in txt
            viacall = any(re.search(r"self (\. tree )?\. %s \(" % re.escape(m), txt) for m in mutating)
            if direct or viacall:
                mutating.add(it.name)
                changed = True
    out = list(toks)
    # now patch receivers
    for it in sorted(fn_items(out), key=lambda x: -x.start):
        if it.name not in mutating or it.body is None:
            continue
        # locate receiver in the parameter list
        p = next(k for k in range(it.start, it.body[0]) if out[k].text == "(")
        if out[p + 1].text == "&" and out[p + 2].text == "self":
            m = T("mut"); m.trivia = ""
            out[p + 2].trivia = " "
            out.insert(p + 2, m)
            fired += 1
        elif out[p + 1].text == "self":
            # by-value: `let mut this = self;` + rename in body
            b0 = it.body[0]
            for k in range(b0 + 1, it.body[1]):
                if out[k].text == "self":
                    out[k] = Tok("ident", "this", out[k].trivia, out[k].line, "rule")
            ins = [T("let"), T("mut"), T("this"), T("="), T("self"), T(";")]
            ins[-1].trivia = ""
            out[b0 + 1:b0 + 1] = ins
            fired += 1
    return out, fired


def rule_detrait(toks, state):
    """X4: `impl<..> Trait<..> for Type<..> where ..` -> `impl<..> Type<..> where ..`;
    associated `type X = T;` items are removed and `Self::X` replaced by T."""
    fired = 0
    out = list(toks)
    for it in sorted([i for i in rtok.parse_items(out, 0, len(out)) if i.kind == "impl"], key=lambda x: -x.start):
        hdr = out[it.start:it.body[0]]
        fi = next((k for k, t in enumerate(hdr) if t.text == "for"), None)
        if fi is None:
            continue
        # assoc types
        subst = {}
        dead = []
        for ch in it.children:
            if ch.kind == "type":
                eq = next(k for k in range(ch.start, ch.end) if out[k].text == "=")
                subst[ch.name] = out[eq + 1:ch.end - 1]
                dead.append((ch.start, ch.end))
        body_lo, body_hi = it.body
        seg = out[body_lo:body_hi + 1]
        base = body_lo
        deadset = set()
        for a, b in dead:
            deadset.update(range(a - base, b - base))
        newseg = []
        k = 0
        while k < len(seg):
            if k in deadset:
                k += 1
                continue
            t = seg[k]
            if t.text == "Self" and k + 2 < len(seg) and seg[k + 1].text == "::" and seg[k + 2].text in subst:
                rep = [Tok(x.kind, x.text, x.trivia, x.line, "rule") for x in subst[seg[k + 2].text]]
                rep[0].trivia = t.trivia
                newseg.extend(rep)
                k += 3
                continue
            newseg.append(t)
            k += 1
        # header: find the end of generics after `impl`
        h = it.start
        while out[h].text != "impl":
            h += 1
        g = h + 1
        if out[g].text == "<":
            d = 0
            while True:
                if out[g].text == "<":
                    d += 1
                elif out[g].text == ">":
                    d -= 1
                    if d == 0:
                        break
                g += 1
            g += 1
        forabs = it.start + fi
        newhdr = out[it.start:g] + out[forabs + 1:body_lo]
        # lifetime parameters that only the dropped trait reference used (`impl<'a, ..> Index<&'a K> for T`) would be
        # unconstrained on the inherent impl: remove them from the generics and elide them in the items
        gen = out[h + 1:g]
        selfty = out[forabs + 1:body_lo]
        lifes = [t.text for t in gen if t.kind == "life"]
        unused = [l for l in lifes if not any(t.kind == "life" and t.text == l for t in selfty)]
        if unused:
            def strip(toks):
                res, k = [], 0
                while k < len(toks):
                    t = toks[k]
                    if t.kind == "life" and t.text in unused:
                        # also swallow a following comma inside generics
                        if k + 1 < len(toks) and toks[k + 1].text == "," and res and res[-1].text in ("<", ","):
                            k += 2
                            continue
                        k += 1
                        continue
                    res.append(t)
                    k += 1
                return res
            newhdr = strip(newhdr)
            newseg = strip(newseg)
        out[it.start:body_hi + 1] = newhdr + newseg
        fired += 1
    return out, fired


def rule_debug_assert(toks):
    """X7: debug_assert!(e [, msg..]) -> { let vx_dbg: bool = e; assert(vx_dbg); }
    (the condition is evaluated as executable code, as in a debug build, and must be provably true)"""
    out, fired, i = [], 0, 0
    while i < len(toks):
        t = toks[i]
        if t.text == "debug_assert" and toks[i + 1].text == "!" and toks[i + 2].text == "(":
            j = rtok.match_close(toks, i + 2)
            k, end = i + 3, j
            while k < j:
                if toks[k].text in ("(", "[", "{"):
                    k = rtok.match_close(toks, k)
                elif toks[k].text == ",":
                    end = k
                    break
                k += 1
            pre, _ = rtok.tokenize("{ let vx_dbg: bool =", "rule")
            post, _ = rtok.tokenize("; assert(vx_dbg); }", "rule")
            pre = [Tok(x.kind, x.text, x.trivia, t.line, "rule") for x in pre]
            post = [Tok(x.kind, x.text, x.trivia, t.line, "rule") for x in post]
            pre[0].trivia = t.trivia
            out.extend(pre + toks[i + 3:end] + post)
            i = j + 1
            fired += 1
            continue
        out.append(t)
        i += 1
    return out, fired


def rule_subst(toks, table):
    """token-for-token(s) substitution, e.g. F -> R (rule X6); table: {ident: "replacement text"}"""
    out, fired = [], 0
    for t in toks:
        if t.kind == "ident" and t.text in table:
            rep, _ = rtok.tokenize(table[t.text], "rule")
            rep = [Tok(x.kind, x.text, x.trivia, t.line, "rule") for x in rep]
            if rep:
                rep[0].trivia = t.trivia
            out.extend(rep)
            fired += 1
        else:
            out.append(t)
    return out, fired


def rule_drop_generic_F(toks):
    """X6 part 2: drop `<F>` after fn/enum/struct names and after type names; drop `where F: Float`."""
    out, fired, i = [], 0, 0
    while i < len(toks):
        t = toks[i]
        if t.text == "<" and i + 2 < len(toks) and toks[i + 1].text == "F" and toks[i + 2].text == ">":
            i += 3
            fired += 1
            continue
        if t.text == "where" and [x.text for x in toks[i + 1:i + 4]] == ["F", ":", "Float"]:
            i += 4
            if toks[i].text == ",":
                i += 1
            fired += 1
            continue
        out.append(t)
        i += 1
    return out, fired


def rule_subst_seq(toks, table):
    """ordered list of [pattern-token-texts, replacement-text]; each applied over the whole section"""
    fired = 0
    for pat, rep in table:
        out, i = [], 0
        while i < len(toks):
            if [x.text for x in toks[i:i + len(pat)]] == pat:
                r, _ = rtok.tokenize(rep, "rule")
                r = [Tok(x.kind, x.text, x.trivia, toks[i].line, "rule") for x in r]
                if r:
                    r[0].trivia = toks[i].trivia
                out.extend(r)
                i += len(pat)
                fired += 1
            else:
                out.append(toks[i])
                i += 1
        toks = out
    return toks, fired


def rule_closure_wildcards(toks):
    """X8: a closure whose parameter is a tuple pattern, `|(k, _)| body`, becomes
    `|cp__| { let (k, _) = cp__; body }` (Verus accepts only plain variables as closure parameters).
    The closure must be the last argument of a call (its body ends at the call's closing parenthesis)."""
    out, fired, i = list(toks), 0, 0
    while i < len(out):
        if out[i].text == "|" and i > 0 and out[i - 1].text == "(" and i + 1 < len(out) and out[i + 1].text == "(":
            call_open = i - 1
            call_close = rtok.match_close(out, call_open)
            pat_close = rtok.match_close(out, i + 1)
            if out[pat_close + 1].text != "|":
                i += 1
                continue
            pattern = out[i + 1:pat_close + 1]
            body = out[pat_close + 2:call_close]
            v = T("cp__"); v.trivia = ""
            bar = T("|"); bar.trivia = ""
            seq = [out[i], v, bar, T("{"), T("let")] + pattern + [T("="), T("cp__"), T(";")] + body + [T("}")]
            out[i:call_close] = seq
            fired += 1
            i += len(seq)
            continue
        i += 1
    return out, fired


def rule_reals(toks):
    """X6: ideal-number instantiation.  F -> R everywhere; `where R: Float` dropped; the generic parameter list `<R>`
    is dropped after `fn NAME`, `enum NAME` and after the type name LineIntersection (re-declared non-generic)."""
    toks, fired = rule_subst(toks, {"F": "R"})
    out, i = [], 0
    while i < len(toks):
        t = toks[i]
        if t.text == "where" and [x.text for x in toks[i + 1:i + 4]] == ["R", ":", "Float"]:
            i += 4
            if i < len(toks) and toks[i].text == ",":
                i += 1
            fired += 1
            continue
        if t.text == "<" and [x.text for x in toks[i + 1:i + 3]] == ["R", ">"] and out:
            prev = out[-1]
            prev2 = out[-2].text if len(out) > 1 else ""
            if prev.text == "LineIntersection" or prev2 in ("fn", "enum"):
                i += 3
                fired += 1
                continue
        out.append(t)
        i += 1
    return out, fired


RULES = {
    "reals": lambda toks, st, arg: rule_reals(toks),
    "subst_seq": lambda toks, st, arg: rule_subst_seq(toks, arg),
    "closure_wildcards": lambda toks, st, arg: rule_closure_wildcards(toks),
    "drop_attrs": lambda toks, st, arg: rule_drop_attrs(toks),
    "unsafecell": lambda toks, st, arg: rule_unsafecell(toks),
    "root_access": lambda toks, st, arg: rule_root_access(toks),
    "self_mut": lambda toks, st, arg: rule_self_mut(toks, st),
    "detrait": lambda toks, st, arg: rule_detrait(toks, st),
    "debug_assert": lambda toks, st, arg: rule_debug_assert(toks),
    "subst": lambda toks, st, arg: rule_subst(toks, arg),
    "drop_generic_F": lambda toks, st, arg: rule_drop_generic_F(toks),
}


def sha(toks):
    return hashlib.sha256(" ".join(t.text for t in toks).encode()).hexdigest()[:16]


def extract_section(spec, state, repo=None):
    repo = repo or REPO
    path = os.path.join(repo, spec["src"])
    if not os.path.exists(path):
        raise VxError(f"source file {spec['src']} missing (lost anchor)")
    text = open(path).read()
    try:
        toks, _ = rtok.tokenize(text, "repo")
        toks = rtok.code_only(toks)   # `//@` in /repo are ordinary comments
        ranges, survivors = select_items(toks, spec)
    except rtok.TokError as e:
        raise VxError(f"cannot scan {spec['src']}: {e}")
    info = {"src": spec["src"], "dropped_items": [r[2] for r in ranges], "kept_items": survivors,
            "sha_extracted": None, "rules": {}}
    toks = delete_ranges(toks, ranges)
    info["sha_extracted"] = sha(toks)
    for r in spec.get("rules", []):
        name, arg = (r, None) if isinstance(r, str) else (r[0], r[1])
        try:
            toks, fired = RULES[name](toks, state, arg)
        except (rtok.TokError, StopIteration, IndexError) as e:
            raise VxError(f"rewrite rule {name} failed on {spec['src']}: {e!r}")
        info["rules"][name] = fired
    info["sha_rewritten"] = sha(toks)
    return toks, info


# --------------------------------------------------------------------------- weaving

def weave(tmpl_toks, tmpl_tail, new_toks):
    """Transplant the annotation tokens of the template onto new_toks.

    Annotations live in the gaps between the template's code tokens (gap i = just before code token i).
    Code tokens are aligned with difflib; a gap whose right neighbour survives stays in front of that
    neighbour, a gap inside a replaced/deleted stretch moves to the end of the replacement."""
    base = [t for t in tmpl_toks if t.kind != "annot"]
    ann = [[] for _ in range(len(base) + 1)]
    bi = 0
    for t in tmpl_toks:
        if t.kind == "annot":
            ann[bi].append(t)
        else:
            bi += 1
    a = [t.text for t in base]
    b = [t.text for t in new_toks]
    identical = a == b
    edits = []
    if identical:
        out = list(tmpl_toks)
    else:
        pos = [None] * (len(base) + 1)      # gap -> index in new_toks before which it is emitted
        sm = difflib.SequenceMatcher(None, a, b, autojunk=False)
        for tag, i1, i2, j1, j2 in sm.get_opcodes():
            if tag == "equal":
                for k in range(i1, i2):
                    pos[k] = j1 + (k - i1)
            elif tag == "insert":
                edits.append({"op": tag, "template": "", "repo": " ".join(b[j1:j2]), "repo_line": new_toks[j1].line})
            else:
                edits.append({"op": tag, "template": " ".join(a[i1:i2]), "repo": " ".join(b[j1:j2]),
                              "repo_line": new_toks[min(j1, len(new_toks) - 1)].line if new_toks else None})
                pos[i1] = j1
                for k in range(i1 + 1, i2):
                    pos[k] = j2
        pos[len(base)] = len(new_toks)
        at = {}
        for g, lst in enumerate(ann):
            if lst:
                at.setdefault(pos[g], []).extend(lst)
        out = []
        for j, nt in enumerate(new_toks):
            out.extend(at.get(j, []))
            out.append(nt)
        out.extend(at.get(len(new_toks), []))
    er = [t.text for t in out if t.kind != "annot"]
    if er != b:
        raise VxError("weave self-check failed: erased output differs from extracted code")
    return out, tmpl_tail, identical, edits


def render_verus(toks, tail):
    """render; returns (text, set of 0-based line offsets that carry at least one code token from /repo)"""
    out = []
    code_lines = set()
    line = 0
    for t in toks:
        line += t.trivia.count("\n")
        out.append(t.trivia)
        if t.kind != "annot":
            code_lines.add(line)
        out.append(t.text)
        line += t.text.count("\n")
    out.append(tail)
    return "".join(out), code_lines


def load_unit(unit):
    d = os.path.join(CONTRACTS, unit)
    cfg = json.load(open(os.path.join(d, "unit.json")))
    cfg["dir"] = d
    return cfg


def generate(unit, repo=None, canary=False):
    cfg = load_unit(unit)
    state = {}
    parts = []
    info = {"unit": unit, "sections": [], "edits": []}
    hdr = cfg.get("header", "use vstd::prelude::*;\n")
    parts.append(hdr)
    parts.append("verus! {\n")
    if "prelude" in cfg:
        parts.append(open(os.path.join(cfg["dir"], cfg["prelude"])).read())
    for sh in cfg.get("shared", []):
        # shared specification text (contracts/shared/*): the same file the Kani harnesses include verbatim;
        # here every `pub fn` becomes `pub open spec fn`
        stext = open(os.path.join(VERIF, "contracts", "shared", sh)).read()
        info.setdefault("shared_spec_sha", {})[sh] = hashlib.sha256(stext.encode()).hexdigest()[:16]
        parts.append(f"// ---- shared specification text {sh} (pub fn -> pub open spec fn) ----\n")
        parts.append(re.sub(r"(?m)^pub fn ", "pub open spec fn ", stext))
    # two passes so that rule state (e.g. the set of mutating methods) reaches a fixed point across sections
    extracted = []
    for _ in range(2):
        extracted = [extract_section(s, state, repo) for s in cfg["sections"]]
    for spec, (toks, sinfo) in zip(cfg["sections"], extracted):
        tpath = os.path.join(cfg["dir"], spec["template"])
        ttext = open(tpath).read()
        ttoks, ttail = rtok.tokenize(ttext, "tmpl")
        out, tail, identical, edits = weave(ttoks, ttail, toks)
        sinfo["unchanged_since_contracts_written"] = identical
        sinfo["annotation_tokens"] = sum(1 for t in out if t.kind == "annot")
        sinfo["code_tokens"] = sum(1 for t in out if t.kind != "annot")
        info["sections"].append(sinfo)
        for e in edits:
            e["src"] = spec["src"]
        info["edits"].extend(edits)
        if spec.get("module"):
            parts.append(f"pub mod {spec['module']} {{\nuse super::*;\n")
        parts.append(f"// ---- section from {spec['src']} (extracted this run) ----\n")
        base_line = sum(x.count("\n") for x in parts) + 1
        rtext, cl = render_verus(out, tail)
        info.setdefault("code_lines", []).extend(sorted(base_line + k for k in cl))
        parts.append(rtext)
        if spec.get("module"):
            parts.append("\n}\n")
    if "postlude" in cfg:
        parts.append(open(os.path.join(cfg["dir"], cfg["postlude"])).read())
    if canary:
        parts.append("\nproof fn vx_canary_must_fail() ensures false {}\n")
    parts.append("\n} // verus!\nfn main() {}\n")
    return "".join(parts), info, cfg


ASSUMPTION_PATTERNS = [r"\bassume\s*\(", r"\badmit\s*\(", r"external_body", r"assume_specification", r"external_fn_specification", r"\baxiom\b", r"external_type_specification", r"#\[verifier::external"]


def scan_assumptions(text):
    found = {}
    for p in ASSUMPTION_PATTERNS:
        n = len(re.findall(p, text))
        if n:
            found[p] = n
    return found


def fn_line_map(text):
    """(start_line, end_line, name) for every fn in the generated file (for mapping errors to obligations).
    A Verus fn is `fn name(..) -> .. requires/ensures .. { body }`; clauses may contain braces, so the body is the
    brace group after which no `,`/operator follows."""
    try:
        toks, _ = rtok.tokenize(text)
    except rtok.TokError:
        return []
    toks = [t for t in toks if t.kind != "annot"]
    res = []
    impls = []
    for i, t in enumerate(toks):
        if t.kind == "ident" and t.text == "impl":
            j = i + 1
            if j < len(toks) and toks[j].text == "<":
                d = 0
                while j < len(toks):
                    if toks[j].text == "<":
                        d += 1
                    elif toks[j].text == ">":
                        d -= 1
                        if d == 0:
                            break
                    j += 1
                j += 1
            ty = toks[j].text if j < len(toks) else "?"
            k = j
            while k < len(toks) and toks[k].text != "{":
                k += 1
            if k < len(toks):
                impls.append((toks[i].line, toks[rtok.match_close(toks, k)].line, ty))
    i = 0
    CONT = {",", "&&", "||", "==", "!=", "<=", ">=", "<", ">", "+", "-", "*", "/", "=", "=>", ".", "?", "&", "|"}
    while i < len(toks):
        if toks[i].kind == "ident" and toks[i].text == "fn" and i + 1 < len(toks) and toks[i + 1].kind == "ident":
            name = toks[i + 1].text
            j = i + 2
            while j < len(toks):
                x = toks[j]
                if x.kind == "punct" and x.text in ("(", "["):
                    j = rtok.match_close(toks, j)
                elif x.kind == "punct" and x.text == "{":
                    e = rtok.match_close(toks, j)
                    nxt = toks[e + 1].text if e + 1 < len(toks) else ""
                    if nxt in CONT:
                        j = e
                    else:
                        q = name
                        for a, b, ty in impls:
                            if a <= toks[i].line <= b:
                                q = ty + "::" + name
                        res.append((toks[i].line, toks[e].line, q))
                        break
                elif x.kind == "punct" and x.text == ";":
                    break
                j += 1
        i += 1
    return res


def run_verus(text, unit, rlimit=None, keep=None, extra=()):
    tmp = tempfile.mkdtemp(prefix=f"vx-{unit}-")
    try:
        f = os.path.join(tmp, f"{unit}.rs")
        open(f, "w").write(text)
        cmd = ["verus", f, "--output-json", "--time-expanded", "--multiple-errors", "5", "-V", "spinoff-all", "--triggers-mode", "silent"]
        if rlimit:
            cmd += ["--rlimit", str(rlimit)]
        cmd += list(extra)
        t0 = time.time()
        p = subprocess.run(cmd, cwd=tmp, capture_output=True, text=True, timeout=float(os.environ.get("VX_TIMEOUT", "900")))
        wall = time.time() - t0
        if keep:
            shutil.copy(f, keep)
        try:
            js = json.loads(p.stdout)
        except Exception:
            js = None
        return {"cmd": " ".join(cmd[:1] + [f"<generated {unit}.rs>"] + cmd[2:]), "rc": p.returncode, "json": js, "stderr": p.stderr, "wall_s": wall}
    finally:
        shutil.rmtree(tmp, ignore_errors=True)


CONTRACT_MSGS = ("postcondition not satisfied", "invariant not satisfied", "possible arithmetic underflow/overflow",
                 "decreases not satisfied", "possible division by zero", "index out of bounds", "recommendation not met",
                 "loop invariant", "might not terminate", "could not prove termination", "precondition not satisfied",
                 "Call to non-static function fails", "assertion failed", "unreachable", "possible bit shift")


def classify_failure(msg, line, code_lines, text_lines=None):
    """contract: a clause of a function contract / loop contract / safety condition of real code failed.
       hint: an intermediate proof step (assert or lemma call written in an annotation line) failed."""
    on_code = line in code_lines if line is not None else False
    if msg.startswith("postcondition not satisfied") or "invariant" in msg or "decreases" in msg or "terminat" in msg:
        return "contract"
    if on_code:
        return "contract"       # overflow, bounds, callee precondition, debug_assert (rule X7) at a line of real code
    if text_lines is not None and line is not None and 0 < line <= len(text_lines) and "contract-step" in text_lines[line - 1]:
        return "contract"       # an annotation marked as a claim about the program state (not an auxiliary proof step)
    return "hint"


def parse_result(res, text, unit, code_lines=frozenset()):
    """-> dict(status=ok|fail|tool, obligations=[{name, ok, time_s, rlimit, mode}], failures=[..])"""
    js = res["json"]
    out = {"status": "tool", "obligations": [], "failures": [], "stderr_head": res["stderr"][:6000], "wall_s": res["wall_s"],
           "checker_cmd": res["cmd"]}
    if js is None:
        out["reason"] = "verus produced no JSON"
        return out
    vr = js.get("verification-results", {})
    fb = []
    for m in js.get("times-ms", {}).get("smt", {}).get("smt-run-module-times", []):
        fb.extend(m.get("function-breakdown", []))
    lm = fn_line_map(text)
    for f in fb:
        out["obligations"].append({"name": f["function"].split("::", 1)[-1] if "::" in f["function"] else f["function"],
                                   "ok": bool(f.get("success")), "time_s": f.get("time-micros", 0) / 1e6,
                                   "rlimit": f.get("rlimit"), "mode": f.get("mode:")})
    # errors with spans from stderr
    errs = []
    cur = None
    for line in res["stderr"].splitlines():
        m = re.match(r"^(error|warning)(\[[A-Z0-9]+\])?: (.*)$", line)
        if m:
            cur = {"level": m.group(1), "msg": m.group(3), "line": None}
            errs.append(cur)
            continue
        m = re.match(r"^\s*--> .*?:(\d+):(\d+)", line)
        if m and cur is not None and cur["line"] is None:
            cur["line"] = int(m.group(1))
            for a, b, name in lm:
                if a <= cur["line"] <= b:
                    cur["fn"] = name
    out["errors"] = [e for e in errs if e["level"] == "error"]
    if vr.get("encountered-vir-error") or (vr.get("encountered-error") and not fb and vr.get("errors", 0) == 0):
        out["status"] = "tool"
        out["reason"] = "verus rejected the generated file before verification (syntax/type/mode error)"
        return out
    resource = [e for e in out["errors"] if "resource limit" in e["msg"] or "rlimit" in e["msg"]]
    failed = [o for o in out["obligations"] if not o["ok"]]
    out["verified"] = vr.get("verified", 0)
    out["n_errors"] = vr.get("errors", 0)
    if not failed and vr.get("errors", 0) == 0 and vr.get("success"):
        out["status"] = "ok"
    elif resource and len(resource) >= len([e for e in out["errors"] if not e["msg"].startswith("aborting")]):
        out["status"] = "tool"
        out["reason"] = "resource limit (rlimit) exceeded"
    else:
        out["status"] = "fail"
        out["failures"] = [{"obligation": e.get("fn", "?"), "msg": e["msg"], "line": e["line"],
                            "kind": classify_failure(e["msg"], e["line"], code_lines, text.splitlines())}
                           for e in out["errors"] if not e["msg"].startswith("aborting")]
    return out


def verify_unit(unit, repo=None, keep=None, canary=False):
    text, info, cfg = generate(unit, repo, canary=canary)
    res = run_verus(text, unit, rlimit=cfg.get("rlimit"), keep=keep)
    pr = parse_result(res, text, unit, frozenset(info.get("code_lines", [])))
    info.pop("code_lines", None)
    pr["extraction"] = info
    pr["assumption_scan"] = scan_assumptions(text)
    pr["generated_sha"] = hashlib.sha256(text.encode()).hexdigest()[:16]
    return pr, text


def cmd_init(unit):
    cfg = load_unit(unit)
    state = {}
    for _ in range(2):
        ex = [extract_section(s, state) for s in cfg["sections"]]
    for spec, (toks, info) in zip(cfg["sections"], ex):
        tpath = os.path.join(cfg["dir"], spec["template"])
        if os.path.exists(tpath):
            print("exists, not overwritten:", tpath)
            continue
        open(tpath, "w").write(rtok.render(toks, "\n"))
        print("wrote", tpath, info["rules"])


def main(argv):
    if len(argv) < 3:
        print("usage: vx.py init|gen|verify|canary <unit> [-o file]")
        return 2
    cmd, unit = argv[1], argv[2]
    try:
        if cmd == "init":
            cmd_init(unit)
            return 0
        if cmd == "gen":
            text, info, _ = generate(unit)
            out = argv[argv.index("-o") + 1] if "-o" in argv else None
            if out:
                open(out, "w").write(text)
            else:
                sys.stdout.write(text)
            print(json.dumps(info, indent=1), file=sys.stderr)
            return 0
        if cmd in ("verify", "canary"):
            keep = argv[argv.index("-o") + 1] if "-o" in argv else None
            pr, _ = verify_unit(unit, keep=keep, canary=(cmd == "canary"))
            brief = {k: v for k, v in pr.items() if k not in ("stderr_head", "extraction")}
            print(json.dumps(brief, indent=1))
            if pr["status"] != "ok":
                print(pr["stderr_head"], file=sys.stderr)
            return {"ok": 0, "fail": 1, "tool": 2}[pr["status"]]
    except VxError as e:
        print("vx: tool error:", e, file=sys.stderr)
        return 2
    return 2


if __name__ == "__main__":
    sys.exit(main(sys.argv))
