#!/usr/bin/env python3
"""setup_cmd: nothing to build; checks that the tool chain the checks need is present (offline)."""
import shutil, sys, os, json, subprocess
sys.path.insert(0, os.path.dirname(os.path.abspath(__file__)))
ok = True
for tool in ("verus", "cargo", "cbmc"):
    if not shutil.which(tool):
        print("missing tool:", tool); ok = False
try:
    subprocess.run(["cargo", "kani", "--version"], capture_output=True, check=True, timeout=120)
except Exception as e:
    print("cargo kani not usable:", e); ok = False
import vx, kx, rtok
VERIF = os.path.dirname(os.path.dirname(os.path.abspath(__file__)))
json.load(open(os.path.join(VERIF, "contracts", "plan.json")))
os.makedirs(os.path.join(VERIF, "evidence"), exist_ok=True)
os.makedirs(os.path.join(VERIF, "replays"), exist_ok=True)
# build universes (DESIGN 11.8): say which dependency resolution the Kani verdicts will be taken in
lock = os.path.join(kx.REPO, "Cargo.lock")
if os.path.exists(lock):
    same = open(lock).read() == open(kx.PINNED_LOCK).read() if os.path.exists(kx.PINNED_LOCK) else None
    print("Cargo.lock of the tree:", "identical to contracts/Cargo.lock.pinned" if same else "differs from contracts/Cargo.lock.pinned (the tree's own lock file is used)")
else:
    print("the tree has no Cargo.lock: contracts/Cargo.lock.pinned will be used")
print("selfcheck", "ok" if ok else "FAILED")
sys.exit(0 if ok else 1)
