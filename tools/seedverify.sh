#!/bin/bash
# seedverify.sh <seed-name> <dir with patch.diff demo.rs meta.json>
# Confirms a seeded change independently: applies the patch to a scratch copy of /repo, runs the 45 existing tests (must pass),
# runs the demo with the patch (must fail) and without it (must pass).  Leaves nothing behind.
set -u
name=$1; src=$2
sc=$(mktemp -d /tmp/seedv-XXXX)
trap 'rm -rf "$sc"' EXIT
(cd /repo && git archive HEAD) | tar -x -C "$sc"
cd "$sc"
mkdir -p lib/tests && cp "$src/demo.rs" lib/tests/seed_demo.rs
echo "== demo WITHOUT the change (must pass)"
CARGO_TARGET_DIR=$sc/target cargo test --offline -p geo-booleanop --test seed_demo 2>&1 | grep -E "^test result|panicked|FAILED|error" | head -5
git init -q . >/dev/null 2>&1
if ! git apply "$src/patch.diff"; then echo "PATCH DOES NOT APPLY"; exit 1; fi
echo "== existing tests WITH the change (must pass 45)"
rm lib/tests/seed_demo.rs
CARGO_TARGET_DIR=$sc/target cargo test --workspace --offline 2>&1 | grep -E "^test result" | head -3
cp "$src/demo.rs" lib/tests/seed_demo.rs
echo "== demo WITH the change (must fail)"
CARGO_TARGET_DIR=$sc/target cargo test --offline -p geo-booleanop --test seed_demo 2>&1 | grep -E "^test result|panicked|FAILED" | head -6
