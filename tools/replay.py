#!/usr/bin/env python3
"""replay.py <replay-file>: re-execute a reported violation against /repo's current working tree.
  *.replay  -- byte vectors of a Kani counterexample: the harness body is re-run natively (cfg(verif_replay), real dependencies)
  *-twin-*.txt / native checks -- the bounded native check is re-run; the file names the failing input
  other .txt -- a failed proof obligation without a concrete input (no-failing-input-found): the file is printed."""
import sys, os, re, shutil
sys.path.insert(0, os.path.dirname(os.path.abspath(__file__)))
import kx, check

path = sys.argv[1]
text = open(path).read()
if path.endswith(".replay"):
    m = re.search(r"replay: python3 tools/kx.py replay \S+ (\w+)", text)
    module = m.group(1) if m else "boolean"
    sc = kx.make_scratch()
    try:
        st, out = kx.native_replay(sc, path, module=module)
    finally:
        shutil.rmtree(sc, ignore_errors=True)
    print("native replay:", st)
    print("\n".join(l for l in out.splitlines() if "panicked" in l or "REPLAY" in l or re.search(r"\bC\d\d", l)))
    sys.exit(1 if st == "fails" else 0)
m = re.search(r"bounded twin of the Verus (\w+) unit|bounded reference-stability", text)
if m:
    test = {"splay": "splay::verif_k::twin_splay", "segint": "boolean::verif_k::twin_segint"}.get(m.group(1) or "", "splay::verif_k::refs_stable_exhaustive")
    sc = kx.make_scratch()
    try:
        st, out = check.run_twin(sc, test, os.devnull)
    finally:
        shutil.rmtree(sc, ignore_errors=True)
    print("bounded native check", test, ":", st)
    print("\n".join(l for l in out.splitlines() if "TWIN" in l))
    sys.exit(1 if st == "fails" else 0)
print(text)
sys.exit(1)
