"""Minimal Rust tokenizer / item scanner used by vx.py and kx.py.

Only what is needed to (a) copy function bodies out of /repo token-exactly, (b) match
braces without being fooled by comments, strings, chars and lifetimes, (c) recognise
annotation comments in templates:

    //@ <verus text to end of line>          -> one annotation token
    /*@ <verus text> @*/                     -> one annotation token

Every token carries the trivia (white space and ordinary comments) that precedes it, so a
token list can be rendered back to text byte-exactly.
"""
import re
from dataclasses import dataclass

PUNCT3 = ["..=", "...", "<<=", ">>="]
PUNCT2 = ["::", "->", "=>", "==", "!=", "<=", ">=", "&&", "||", "+=", "-=", "*=", "/=", "%=",
          "^=", "&=", "|=", ".."]
# NB: "<<" / ">>" are deliberately not combined: `Box<Node<K, V>>` needs two `>`.

IDENT_RE = re.compile(r"[A-Za-z_][A-Za-z0-9_]*")
NUM_RE = re.compile(r"[0-9][0-9A-Za-z_]*(\.[0-9][0-9A-Za-z_]*)?([eE][+-]?[0-9_]+)?[A-Za-z0-9_]*")


@dataclass
class Tok:
    kind: str      # ident num str char life punct annot
    text: str
    trivia: str    # white space + ordinary comments before the token
    line: int = 0  # 1-based line in the source it came from
    src: str = ""  # provenance tag: "repo", "tmpl", "annot"

    def __repr__(self):
        return f"{self.kind}:{self.text!r}"


class TokError(Exception):
    pass


def tokenize(text, src=""):
    toks = []
    i, n = 0, len(text)
    triv_start = 0
    line = 1

    def push(kind, s, start):
        nonlocal triv_start
        toks.append(Tok(kind, s, text[triv_start:start], text.count("\n", 0, start) + 1, src))
        triv_start = start + len(s) if kind != "annot" else triv_start

    while i < n:
        c = text[i]
        if c.isspace():
            i += 1
            continue
        if text.startswith("//", i):
            j = text.find("\n", i)
            if j < 0:
                j = n
            if text.startswith("//@", i) and not text.startswith("//@@", i):
                body = text[i + 3:j]
                t = Tok("annot", body, text[triv_start:i], text.count("\n", 0, i) + 1, "annot")
                t.style = "line"
                toks.append(t)
                triv_start = j
            i = j
            continue
        if text.startswith("/*", i):
            depth, j = 1, i + 2
            while j < n and depth:
                if text.startswith("/*", j):
                    depth += 1
                    j += 2
                elif text.startswith("*/", j):
                    depth -= 1
                    j += 2
                else:
                    j += 1
            if depth:
                raise TokError("unterminated block comment")
            if text.startswith("/*@", i) and text[i:j].endswith("@*/"):
                body = text[i + 3:j - 3]
                t = Tok("annot", body, text[triv_start:i], text.count("\n", 0, i) + 1, "annot")
                t.style = "block"
                toks.append(t)
                triv_start = j
            i = j
            continue
        start = i
        # raw strings r"..", r#".."#, byte strings
        m = re.match(r'b?r(#*)"', text[i:])
        if m:
            hashes = m.group(1)
            end = text.find('"' + hashes, i + len(m.group(0)))
            if end < 0:
                raise TokError("unterminated raw string")
            j = end + 1 + len(hashes)
            push("str", text[i:j], start)
            i = j
            continue
        if c == '"' or (c == 'b' and text.startswith('b"', i)):
            j = i + (2 if c == 'b' else 1)
            while j < n and text[j] != '"':
                j += 2 if text[j] == "\\" else 1
            j += 1
            push("str", text[i:j], start)
            i = j
            continue
        if c == "'":
            # char literal or lifetime
            m = re.match(r"'(\\.[^']*|[^\\'])'", text[i:])
            if m:
                push("char", m.group(0), start)
                i += len(m.group(0))
                continue
            m = re.match(r"'[A-Za-z_][A-Za-z0-9_]*", text[i:])
            if m:
                push("life", m.group(0), start)
                i += len(m.group(0))
                continue
            raise TokError(f"bad quote at offset {i}")
        m = IDENT_RE.match(text, i)
        if m:
            push("ident", m.group(0), start)
            i = m.end()
            continue
        if c.isdigit():
            j = i
            if text.startswith(("0x", "0b", "0o"), i):
                j = i + 2
            while j < n and (text[j].isalnum() or text[j] == "_"):
                # exponent sign: 1e-3
                j += 1
            if j < n and text[j] == "." and not text.startswith("..", j):
                k = j + 1
                if k < n and text[k].isdigit():
                    j = k
                    while j < n and (text[j].isalnum() or text[j] == "_"):
                        j += 1
                elif not (k < n and (text[k].isalpha() or text[k] == "_")):
                    j = k            # `0.` float literal
            push("num", text[i:j], start)
            i = j
            continue
        for plist, ln in ((PUNCT3, 3), (PUNCT2, 2)):
            s = text[i:i + ln]
            if s in plist:
                push("punct", s, start)
                i += ln
                break
        else:
            push("punct", c, start)
            i += 1
    tail = text[triv_start:]
    return toks, tail


def render(toks, tail=""):
    out = []
    for t in toks:
        out.append(t.trivia)
        if t.kind == "annot":
            if getattr(t, "style", "line") == "line":
                out.append(t.text)       # the verus text replaces the comment; newline is in next trivia
            else:
                out.append(t.text)
        else:
            out.append(t.text)
    out.append(tail)
    return "".join(out)


OPEN = {"(": ")", "[": "]", "{": "}"}
CLOSE = {")": "(", "]": "[", "}": "{"}


def match_close(toks, i):
    """toks[i] is an opening bracket; return index of its partner."""
    assert toks[i].text in OPEN, toks[i]
    depth = 0
    for j in range(i, len(toks)):
        t = toks[j]
        if t.kind != "punct":
            continue
        if t.text in OPEN:
            depth += 1
        elif t.text in CLOSE:
            depth -= 1
            if depth == 0:
                return j
    raise TokError("unbalanced bracket")


ITEM_KW = {"fn", "struct", "enum", "impl", "mod", "use", "trait", "type", "const", "static", "macro_rules"}


@dataclass
class Item:
    kind: str        # fn struct enum impl mod use trait ...
    name: str        # identifier (fn/struct/...) or the header text for impl
    start: int       # index of first token (attributes included)
    end: int         # index one past the last token
    body: tuple      # (open_brace_idx, close_brace_idx) or None
    header: str      # tokens up to body / `;`, joined by one blank
    children: list


def parse_items(toks, lo, hi):
    """Items between token indices [lo, hi) at one nesting level (code tokens only)."""
    items = []
    i = lo
    while i < hi:
        start = i
        # attributes
        while i < hi and toks[i].text == "#":
            j = i + 1
            if j < hi and toks[j].text == "!":
                j += 1
            if j < hi and toks[j].text == "[":
                i = match_close(toks, j) + 1
            else:
                break
        # visibility / qualifiers
        while i < hi and toks[i].text in ("pub", "unsafe", "async", "extern", "default"):
            i += 1
            if i < hi and toks[i].text == "(" and toks[i - 1].text == "pub":
                i = match_close(toks, i) + 1
            if i < hi and toks[i].kind == "str":
                i += 1
        if i >= hi:
            break
        kw = toks[i].text
        if kw == "const" and i + 1 < hi and toks[i + 1].text == "fn":
            i += 1
            kw = "fn"
        if kw not in ITEM_KW:
            raise TokError(f"unexpected token {toks[i]!r} at item level (line {toks[i].line})")
        # scan to `;` or `{` at bracket depth 0 (angle brackets ignored: `{`/`;` never occur inside them in item headers here)
        j = i + 1
        depth = 0
        body = None
        while j < hi:
            t = toks[j]
            if t.kind == "punct":
                if t.text in ("(", "["):
                    depth += 1
                elif t.text in (")", "]"):
                    depth -= 1
                elif depth == 0 and t.text == ";":
                    break
                elif depth == 0 and t.text == "{" and kw == "use":
                    j = match_close(toks, j)
                elif depth == 0 and t.text == "{":
                    body = (j, match_close(toks, j))
                    break
            j += 1
        if j >= hi:
            raise TokError(f"item starting line {toks[start].line} has no end")
        end = (body[1] if body else j) + 1
        # struct Foo { .. } has no trailing `;`; tuple structs / use end at `;`
        header_toks = toks[i:(body[0] if body else j)]
        header = " ".join(t.text for t in header_toks if t.kind != "annot")
        name = ""
        if kw == "impl":
            name = header
        else:
            for t in toks[i + 1:j]:
                if t.kind == "ident":
                    name = t.text
                    break
            if kw == "macro_rules":
                name = toks[i + 2].text if i + 2 < hi else ""
        children = []
        if body and kw in ("impl", "mod", "trait"):
            children = parse_items(toks, body[0] + 1, body[1])
        items.append(Item(kw, name, start, end, body, header, children))
        i = end
    return items


def code_only(toks):
    return [t for t in toks if t.kind != "annot"]
