#!/usr/bin/env python3
"""kx.py -- Kani path: the real crate in a throw-away copy, harness modules injected, dependencies
replaced by their contracts with #[kani::stub]; failing harnesses are replayed natively against the real code."""
import sys, os, re, json, subprocess, tempfile, shutil, time, hashlib

VERIF = os.path.dirname(os.path.dirname(os.path.abspath(__file__)))
REPO = os.environ.get("VERIF_REPO", "/repo")
KANI_DIR = os.path.join(VERIF, "kani")

# (module file that receives one appended line, line, harness dir in /verif/kani, destination dir)
INJECT = [
    ("lib/src/boolean/mod.rs", "#[cfg(any(kani, verif_replay))]\nmod verif_k;\n", "boolean", "lib/src/boolean/verif_k"),
    ("lib/src/splay/mod.rs", "#[cfg(any(kani, verif_replay))]\nmod verif_k;\n", "splay", "lib/src/splay/verif_k"),
]


class KxError(Exception):
    pass


# "Universes": builds that differ only in the version of unicode-ident, a build-time dependency of the derive macros
# that geo-types uses (all four versions are in the offline registry).  The generated code is identical, but every crate
# hash downstream of it -- and with it every mangled symbol name -- changes.  CBMC 6.11 / Kani 0.68 verdicts were
# observed to depend on that for harnesses that keep heap pointers in statics (DESIGN 11.8), so an unreplayable
# refutation is only believed when it is reproduced in builds with different hashes.
UNIVERSES = ["1.0.25", "1.0.26", "1.0.24", "1.0.18"]
PINNED_LOCK = os.path.join(VERIF, "contracts", "Cargo.lock.pinned")


def set_universe(scratch, version):
    env = dict(os.environ, CARGO_NET_OFFLINE="true")
    p = subprocess.run(["cargo", "update", "--offline", "-p", "unicode-ident", "--precise", version], cwd=scratch,
                       capture_output=True, text=True, env=env)
    if p.returncode != 0:
        raise KxError("cannot select universe %s: %s" % (version, (p.stderr or "")[-300:]))


def current_universe(scratch):
    try:
        m = re.search(r'name = "unicode-ident"\nversion = "([^"]+)"', open(os.path.join(scratch, "Cargo.lock")).read())
        return m.group(1) if m else None
    except OSError:
        return None


def make_scratch(repo=None, universe=None):
    repo = repo or REPO
    base = os.environ.get("VERIF_SCRATCH", tempfile.gettempdir())
    d = tempfile.mkdtemp(prefix="kx-", dir=base)
    for name in os.listdir(repo):
        if name in ("target", ".git"):
            continue
        src = os.path.join(repo, name)
        dst = os.path.join(d, name)
        if os.path.isdir(src):
            shutil.copytree(src, dst, ignore=shutil.ignore_patterns("target", ".git"))
        else:
            shutil.copy2(src, dst)
    os.makedirs(os.path.join(d, ".cargo"), exist_ok=True)
    with open(os.path.join(d, ".cargo", "config.toml"), "w") as f:
        f.write("[net]\noffline = true\n")
    injected = []
    # crate-level feature gate needed by the BinaryHeap::push contract stub (generic over the allocator parameter)
    librs = os.path.join(d, "lib/src/lib.rs")
    if os.path.exists(librs):
        txt = open(librs).read()
        open(librs, "w").write("#![cfg_attr(kani, feature(allocator_api))]\n" + txt)
    for modfile, line, hdir, dest in INJECT:
        srcdir = os.path.join(KANI_DIR, hdir)
        if not os.path.isdir(srcdir):
            continue
        mf = os.path.join(d, modfile)
        if not os.path.exists(mf):
            raise KxError(f"{modfile} missing in repo (lost anchor)")
        with open(mf, "a") as f:
            f.write("\n" + line)
        shutil.copytree(srcdir, os.path.join(d, dest))
        # shared specification texts (one text for Kani and Verus)
        shared = os.path.join(VERIF, "contracts", "shared")
        if hdir == "boolean" and os.path.isdir(shared):
            for fn in os.listdir(shared):
                shutil.copy2(os.path.join(shared, fn), os.path.join(d, dest, fn))
        injected.append(modfile)
    # the dependency resolution is part of what is verified: without a lock file cargo would pick the newest versions in
    # the offline registry
    if not os.path.exists(os.path.join(d, "Cargo.lock")) and os.path.exists(PINNED_LOCK):
        shutil.copy2(PINNED_LOCK, os.path.join(d, "Cargo.lock"))
    universe = universe or os.environ.get("KX_UNIVERSE")
    if universe:
        set_universe(d, universe)
    return d


def source_hashes(files, repo=None):
    repo = repo or REPO
    out = {}
    for f in files:
        p = os.path.join(repo, f)
        out[f] = hashlib.sha256(open(p, "rb").read()).hexdigest()[:16] if os.path.exists(p) else None
    return out


HARNESS_RE = re.compile(r"Checking harness ([\w:]+)\.\.\.")


def parse_kani_output(text):
    """fallback parser for the terse text log (used when --export-json wrote nothing, e.g. after a harness timeout).
    With -j the result blocks are introduced by a line `Thread N: ` and belong to the harness that thread announced."""
    res = {}
    thread_h = {}
    cur = None
    for line in text.splitlines():
        m = re.match(r"^(?:Thread (\d+): )?Checking harness ([\w:]+)\.\.\.", line)
        if m:
            h = m.group(2).split("::")[-1]
            thread_h[m.group(1)] = h
            cur = h
            res[h] = {"status": "unknown", "failed_checks": [], "cover_satisfied": 0, "cover_total": 0, "time_s": None, "checks": None, "stubs": []}
            continue
        m = re.match(r"^Thread (\d+):\s*(.*)$", line)
        if m:
            cur = thread_h.get(m.group(1), cur)
            line = m.group(2)
            if not line:
                continue
        if cur is None:
            continue
        r = res[cur]
        if line.startswith("Failed Checks:"):
            r["failed_checks"].append(line[len("Failed Checks:"):].strip().strip('"'))
        m = re.match(r"\s*\*\* (\d+) of (\d+) failed", line)
        if m:
            r["checks"] = int(m.group(2))
            r["n_failed"] = int(m.group(1))
        m = re.match(r"\s*\*\* (\d+) of (\d+) cover properties satisfied", line)
        if m:
            r["cover_satisfied"] = int(m.group(1))
            r["cover_total"] = int(m.group(2))
        m = re.match(r"Verification Time: ([0-9.]+)s", line)
        if m:
            r["time_s"] = float(m.group(1))
        if "CBMC failed" in line or "CBMC timed out" in line or "TIMEOUT" in line or "out of memory" in line.lower():
            r["tool_error"] = line.strip()
        if "VERIFICATION:- SUCCESSFUL" in line:
            r["status"] = "ok"
        elif "VERIFICATION:- FAILED" in line:
            r["status"] = "error" if (r.get("tool_error") or not r["failed_checks"]) else "fail"
        m = re.match(r"\s*- Stub: (.*)", line)
        if m:
            r["stubs"].append(m.group(1).strip())
    return res


def parse_kani_json(path):
    """structured results written by `cargo kani --export-json` -> same shape as parse_kani_output"""
    d = json.load(open(path))
    res = {}
    pdet = {x["harness_id"]: x["property_details"] for x in d.get("property_details", [])}
    errs = {x["harness_id"]: x for x in d.get("error_details", [])}
    stats = {x["harness_id"]: x.get("cbmc_stats", {}) for x in d.get("cbmc", [])}
    for r in d.get("verification_results", {}).get("results", []):
        hid = r["harness_id"]
        h = hid.split("::")[-1]
        checks = r.get("checks", [])
        failed = [c for c in checks if c.get("status") in ("Failure", "FAILURE", "Failed")]
        pd = pdet.get(hid, {})
        covers_sat = pd.get("satisfied") or 0
        covers_total = (pd.get("satisfied") or 0) + (pd.get("unsatisfiable") or 0)
        st = r.get("status", "")
        if st == "Success":
            status = "ok"
        elif failed:
            status = "fail"
        else:
            status = "error"
        res[h] = {"status": status, "harness_id": hid,
                  "failed_checks": [c.get("description", "").strip('"') for c in failed],
                  "failed_locations": [f"{c.get('location', {}).get('file')}:{c.get('location', {}).get('line')}" for c in failed],
                  "cover_satisfied": covers_sat, "cover_total": covers_total,
                  "time_s": (r.get("duration_ms") or 0) / 1000.0,
                  "checks": pd.get("total_properties", len(checks)), "n_failed": pd.get("failed", len(failed)),
                  "undetermined": pd.get("undetermined", 0),
                  "solver_time_s": stats.get(hid, {}).get("runtime_decision_procedure_s"),
                  "tool_error": (errs.get(hid, {}).get("has_errors") and json.dumps(errs.get(hid))[:300]) or None,
                  # the contract clauses this harness asserts (assertion texts written from the property statements)
                  "clauses": sorted({c.get("description", "").strip('"') for c in checks
                                     if re.match(r'^"?C\d\d', c.get("description", ""))})}
        if status == "fail" and pd.get("undetermined", 0) and all("unwinding assertion" in f for f in res[h]["failed_checks"]):
            res[h]["status"] = "error"
            res[h]["tool_error"] = "unwinding bound too small: " + "; ".join(res[h]["failed_checks"])
    return res, d.get("tools", {})


def run_kani(scratch, harnesses, jobs=8, timeout_s=1800, extra=()):
    out_json = os.path.join(scratch, "kani-results.json")
    if os.path.exists(out_json):
        os.remove(out_json)
    cmd = ["cargo", "kani", "-Z", "stubbing", "-Z", "unstable-options", "--output-format", "terse", "-j", str(jobs),
           "--harness-timeout", f"{timeout_s}s", "--export-json", out_json]
    for h in harnesses:
        cmd += ["--harness", h]
    cmd += list(extra)
    env = dict(os.environ, CARGO_NET_OFFLINE="true")
    t0 = time.time()
    try:
        p = subprocess.run(cmd, cwd=os.path.join(scratch, "lib"), capture_output=True, text=True, env=env,
                           timeout=timeout_s * max(1, (len(harnesses) + jobs - 1) // jobs) + 900)
        out = p.stdout + "\n" + p.stderr
        rc = p.returncode
    except subprocess.TimeoutExpired as e:
        out = ((e.stdout or b"").decode(errors="replace") if isinstance(e.stdout, bytes) else (e.stdout or "")) + "\n[kx: cargo kani timed out]"
        rc = -1
    wall = time.time() - t0
    res, tools = {}, {}
    if os.path.exists(out_json):
        try:
            res, tools = parse_kani_json(out_json)
        except Exception as e:
            out += f"\n[kx: cannot parse {out_json}: {e}]"
    if not res:
        res = parse_kani_output(out)
    # stubs actually applied, from the text log
    for m in re.finditer(r"Checking harness ([\w:]+)\.\.\.", out):
        pass
    shown = " ".join(cmd).replace(out_json, "<scratch>/kani-results.json")
    return {"cmd": shown, "rc": rc, "results": res, "raw": out, "wall_s": wall, "tools": tools}


def concrete_playback(scratch, harness, timeout_s=1800):
    """re-run one failing harness and extract the byte vectors of its counterexample"""
    cmd = ["cargo", "kani", "-Z", "stubbing", "-Z", "concrete-playback", "--concrete-playback=print", "--harness", harness]
    env = dict(os.environ, CARGO_NET_OFFLINE="true")
    p = subprocess.run(cmd, cwd=os.path.join(scratch, "lib"), capture_output=True, text=True, env=env, timeout=timeout_s + 600)
    out = p.stdout
    cases = []
    for blk in re.split(r"Concrete playback unit test for", out)[1:]:
        hm = re.search(r"/// Check for `([^`]*)`: \"(.*?)\"\s*\n", blk, re.S)
        m = re.search(r"let concrete_vals: Vec<Vec<u8>> = vec!\[(.*?)\n\s*\];", blk, re.S)
        if not m:
            continue
        vals = []
        for vm in re.finditer(r"vec!\[([0-9,\s]*)\]", m.group(1)):
            body = vm.group(1).strip()
            vals.append([int(x) for x in body.split(",") if x.strip()] if body else [])
        cases.append({"kind": hm.group(1) if hm else "?", "desc": hm.group(2) if hm else "?", "vals": vals})
    fails = [c for c in cases if c["kind"] != "cover"]
    return fails, out


def write_replay_file(path, harness, vals, header=""):
    with open(path, "w") as f:
        for l in header.splitlines():
            f.write("# " + l + "\n")
        f.write(harness + "\n")
        for v in vals:
            f.write(" ".join(str(b) for b in v) + "\n")


def native_replay(scratch, replay_file, module="boolean", timeout_s=1200):
    """run the harness body natively (real robust::orient2d, no stubs) on the recorded input.
    -> ("fails" | "passes" | "precondition-false" | "error", output)"""
    env = dict(os.environ, CARGO_NET_OFFLINE="true", RUSTFLAGS="--cfg verif_replay", VERIF_REPLAY_FILE=os.path.abspath(replay_file),
               CARGO_TARGET_DIR=os.path.join(scratch, "target-replay"))
    cmd = ["cargo", "test", "--offline", "--lib", "-p", "geo-booleanop", f"{module}::verif_k::replay_entry", "--", "--exact", "--nocapture", "--test-threads", "1"]
    p = subprocess.run(cmd, cwd=os.path.join(scratch, "lib"), capture_output=True, text=True, env=env, timeout=timeout_s)
    out = p.stdout + "\n" + p.stderr
    if "REPLAY-NOT-AVAILABLE" in out:
        return "not-available", out
    if "REPLAY-PRECONDITION-FALSE" in out:
        return "precondition-false", out
    if "REPLAY-PASSED" in out and p.returncode == 0:
        return "passes", out
    if "panicked at" in out:
        return "fails", out
    return "error", out


def main(argv):
    if len(argv) < 2:
        print("usage: kx.py run <harness>... | replay <file>")
        return 2
    if argv[1] == "run":
        sc = make_scratch()
        try:
            r = run_kani(sc, argv[2:])
            print(json.dumps({k: v for k, v in r.items() if k != "raw"}, indent=1))
            if any(v["status"] != "ok" for v in r["results"].values()) or not r["results"]:
                print(r["raw"][-6000:])
        finally:
            if not os.environ.get("KX_KEEP"):
                shutil.rmtree(sc, ignore_errors=True)
            else:
                print("kept", sc)
        return 0
    if argv[1] == "batch":
        # kx.py batch <out.json> <jobs> <harness>...   (timing survey; not a check)
        sc = make_scratch()
        try:
            r = run_kani(sc, argv[4:], jobs=int(argv[3]), timeout_s=3000)
            json.dump({h: {k: v for k, v in res.items()} for h, res in r["results"].items()}, open(argv[2], "w"), indent=1)
            open(argv[2] + ".raw", "w").write(r["raw"])
        finally:
            shutil.rmtree(sc, ignore_errors=True)
        return 0
    if argv[1] == "replay":
        sc = make_scratch()
        try:
            st, out = native_replay(sc, argv[2], module=(argv[3] if len(argv) > 3 else "boolean"))
            print(st)
            print(out[-3000:])
        finally:
            shutil.rmtree(sc, ignore_errors=True)
        return 0
    return 2


if __name__ == "__main__":
    sys.exit(main(sys.argv))
