#!/usr/bin/env python3
"""(re)write contracts/ledger.json: the obligations each Verus unit must generate. Run on the pinned tree only."""
import sys, os, json
sys.path.insert(0, os.path.dirname(os.path.abspath(__file__)))
import vx
VERIF = os.path.dirname(os.path.dirname(os.path.abspath(__file__)))
path = os.path.join(VERIF, "contracts", "ledger.json")
led = json.load(open(path)) if os.path.exists(path) else {}
for unit in sys.argv[1:]:
    pr, _ = vx.verify_unit(unit)
    assert pr["status"] == "ok", (unit, pr["status"])
    led[f"verus/{unit}"] = sorted(o["name"] for o in pr["obligations"])
    print(unit, len(led[f"verus/{unit}"]))
json.dump(led, open(path, "w"), indent=1)
