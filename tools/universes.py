#!/usr/bin/env python3
"""universes.py <jobs> <harness>...  -- development aid: run the given Kani harnesses on /repo (or VERIF_REPO) in every
build universe (kx.UNIVERSES) and print the verdict matrix.  A harness whose verdict differs between universes is
unstable under CBMC/Kani (DESIGN 11.8) and must be reshaped before it may decide anything."""
import sys, os, json, shutil, concurrent.futures

sys.path.insert(0, os.path.dirname(os.path.abspath(__file__)))
import kx


def one(args):
    u, hs, jobs = args
    sc = kx.make_scratch(universe=u)
    try:
        r = kx.run_kani(sc, hs, jobs=jobs, timeout_s=3000)
        return u, {h: ((r["results"].get(h) or {}).get("status", "missing"), (r["results"].get(h) or {}).get("failed_checks", [])[:2], (r["results"].get(h) or {}).get("time_s")) for h in hs}
    finally:
        shutil.rmtree(sc, ignore_errors=True)


def main():
    jobs = int(sys.argv[1])
    hs = sys.argv[2:]
    us = os.environ.get("KX_UNIVERSES", ",".join(kx.UNIVERSES)).split(",")
    par = int(os.environ.get("KX_UPAR", "2"))
    res = {}
    with concurrent.futures.ThreadPoolExecutor(par) as ex:
        for u, r in ex.map(one, [(u, hs, jobs) for u in us]):
            res[u] = r
            print("universe", u, json.dumps(r), flush=True)
    bad = [h for h in hs if len({res[u][h][0] for u in us}) > 1]
    print("UNSTABLE:" if bad else "stable", " ".join(bad))
    return 1 if bad else 0


if __name__ == "__main__":
    sys.exit(main())
