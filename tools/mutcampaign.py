#!/usr/bin/env python3
"""mutcampaign.py <survivors.json> <out.json> [workers]  -- development aid (not a check).
Runs, for every test-surviving single-token mutant, the contract units that cover the mutated file and records
whether an obligation is refuted (detected), everything still verifies (undetected) or the tools give no verdict."""
import sys, os, json, shutil, subprocess, tempfile, concurrent.futures, time

sys.path.insert(0, os.path.dirname(os.path.abspath(__file__)))
import rtok, vx, kx, check, mutate

UNITS = {
    "lib/src/boolean/compute_fields.rs": {"kani": ["fields_select", "fields_prev_in_result"]},
    "lib/src/boolean/possible_intersection.rs": {"kani": ["possible_intersection_point_f64", "possible_intersection_none_f64"], "native": ["boolean::verif_k::overlap_arm_exhaustive"]},
    "lib/src/boolean/divide_segment.rs": {"kani": ["divide_segment_contract_f64", "divide_segment_bump_f32"]},
    "lib/src/boolean/fill_queue.rs": {"kani": ["fill_queue_triangle_f64", "fill_queue_collapsed_f64", "fill_queue_clipping_f64", "fill_queue_hole_f64"]},
    "lib/src/boolean/compare_segments.rs": {"kani": ["compare_segments_matches_spec_f64"]},
    "lib/src/boolean/sweep_event.rs": {"kani": ["cmp_matches_spec_f64", "fields_select"]},
    "lib/src/boolean/mod.rs": {"kani": ["trait_impl_poly_poly_f64", "trait_impl_poly_multi_f64", "trait_impl_multi_multi_f64", "trait_impl_multi_poly_f64",
                                        "trivial_xsep_difference_f64", "trivial_ysep_difference_f64", "trivial_xsep_intersection_f64", "trivial_ysep_intersection_f64",
                                        "trivial_clip_empty_difference_f64", "trivial_subj_empty_difference_f64", "trivial_xsep_xor_f64"]},
    "lib/src/boolean/connect_edges.rs": {"verus": ["iterorder"], "kani": ["contour_parent"]},
    "lib/src/boolean/segment_intersection.rs": {"verus": ["segint"], "native": ["boolean::verif_k::twin_segint"], "kani": ["intersection_in_boxes_f64"]},
    "lib/src/boolean/subdivide_segments.rs": {"kani": ["sweep_step"]},
    "lib/src/splay/tree.rs": {"verus": ["splay"], "native": ["splay::verif_k::twin_splay", "splay::verif_k::refs_stable_exhaustive"]},
    "lib/src/splay/set.rs": {"verus": ["splay"], "native": ["splay::verif_k::twin_splay"]},
}


def run_one(m):
    t0 = time.time()
    root = tempfile.mkdtemp(prefix="mutc-")
    res = {"mutant": m, "verdict": "undetected", "detail": []}
    try:
        subprocess.run(f"cd /repo && git archive HEAD | tar -x -C {root}", shell=True, check=True)
        mutate.apply(m, root)
        u = UNITS.get(m["file"], {})
        detected = False
        undecided = False
        for unit in u.get("verus", []):
            try:
                pr, _ = vx.verify_unit(unit, repo=root)
                res["detail"].append((f"verus/{unit}", pr["status"], [f["obligation"] + ":" + f["kind"] for f in pr.get("failures", [])][:3]))
                if pr["status"] == "fail":
                    detected = True
                elif pr["status"] == "tool":
                    undecided = True
            except Exception as e:
                res["detail"].append((f"verus/{unit}", "exception", str(e)[:100]))
                undecided = True
        sc = None
        if (u.get("kani") or u.get("native")) and not detected:
            sc = kx.make_scratch(repo=root)
            try:
                for t in u.get("native", []):
                    st, _ = check.run_twin(sc, t, os.devnull)
                    res["detail"].append((f"native/{t}", st))
                    if st == "fails":
                        detected = True
                    elif st != "passes":
                        undecided = True
                if u.get("kani") and not detected:
                    r = kx.run_kani(sc, u["kani"], jobs=2, timeout_s=1500)
                    for h in u["kani"]:
                        hr = r["results"].get(h)
                        st = hr["status"] if hr else "missing"
                        res["detail"].append((f"kani/{h}", st, (hr or {}).get("failed_checks", [])[:2]))
                        if st == "fail":
                            detected = True
                        elif st != "ok":
                            undecided = True
            finally:
                shutil.rmtree(sc, ignore_errors=True)
        res["verdict"] = "detected" if detected else ("undecided" if undecided else "undetected")
    except Exception as e:
        res["verdict"] = "error"
        res["detail"].append(str(e)[:200])
    finally:
        shutil.rmtree(root, ignore_errors=True)
    res["time_s"] = round(time.time() - t0, 1)
    return res


def main():
    surv = [m for m in json.load(open(sys.argv[1])) if m["status"] == "survives"]
    out = sys.argv[2]
    workers = int(sys.argv[3]) if len(sys.argv) > 3 else 3
    done = []
    if os.path.exists(out):
        done = json.load(open(out))
    seen = {(d["mutant"]["file"], d["mutant"]["tok"], d["mutant"]["new"]) for d in done}
    todo = [m for m in surv if (m["file"], m["tok"], m["new"]) not in seen]
    print(len(surv), "survivors,", len(todo), "to do")
    with concurrent.futures.ProcessPoolExecutor(workers) as ex:
        for r in ex.map(run_one, todo):
            done.append(r)
            json.dump(done, open(out, "w"), indent=1)
            print(r["mutant"]["file"], r["mutant"]["line"], r["mutant"]["old"], "->", r["mutant"]["new"], ":", r["verdict"], r["time_s"], flush=True)
    from collections import Counter
    print(Counter(d["verdict"] for d in done))


if __name__ == "__main__":
    main()
