#!/usr/bin/env python3
"""writes MANIFEST.json from contracts/plan.json + contracts/manifest_meta.json (one source of truth for the claims)"""
import json, os
VERIF = os.path.dirname(os.path.dirname(os.path.abspath(__file__)))
plan = json.load(open(os.path.join(VERIF, "contracts", "plan.json")))
meta = json.load(open(os.path.join(VERIF, "contracts", "manifest_meta.json")))
checks = []
for pid in sorted(k for k in plan if not k.startswith("_")):
    m = meta["checks"][pid]
    checks.append({
        "property_id": pid,
        "quick_cmd": f"./check {pid} --tier quick",
        "thorough_cmd": f"./check {pid} --tier thorough",
        "evidence_file": f"/verif/evidence/{pid}.json",
        "replay_cmd_template": "python3 tools/replay.py {path}",
        "engine": "contracts",
        "level_claimed": {"category": "proof", "text": m["level_text"], "design_ref": m.get("design_ref", "DESIGN.md section 5")},
        "level_note": m["level_note"],
        "technique": m["technique"],
    })
man = {
    "version": 1,
    "setup_cmd": "python3 tools/selfcheck.py",
    "hooks": {"guard": "none (no hooks: Kani harness modules are injected into a scratch copy under cfg(kani)/cfg(verif_replay); Verus works on extracted text)",
              "enable": "n/a", "baseline_off_cmd": "cd /repo && cargo test --workspace --no-fail-fast --offline", "source_commits": [], "add_only": True},
    "engines": [{"name": "contracts", "path": "/verif/tools/check.py", "serves_properties": [c["property_id"] for c in checks],
                 "kind_free_text": "contract-based deductive verification: Verus (Z3) on mechanically extracted real functions with woven-in contracts; Kani (CBMC) assume/call/assert harnesses on the real crate for loop-free Rc/RefCell functions"}],
    "checks": checks,
    "notes": meta.get("notes", ""),
    "not_applicable": meta["not_applicable"],
}
json.dump(man, open(os.path.join(VERIF, "MANIFEST.json"), "w"), indent=1)
print("MANIFEST.json:", len(checks), "checks,", len(man["not_applicable"]), "not applicable")
