use vstd::prelude::*;
verus! {

pub struct L { pub v: u64, pub next: Option<Box<L>> }

pub open spec fn view(l: Option<Box<L>>) -> Seq<u64> decreases l {
    match l { None => seq![], Some(n) => seq![n.v] + view(n.next) }
}

fn push_back(head0: Option<Box<L>>, x: u64) -> (res: Option<Box<L>>)
    ensures view(res) == view(head0).push(x)
{
    let mut head = head0;
    #[verifier::prophetic] let ghost mut head_fin: Option<Box<L>> = None;
    {
    let mut cur = &mut head;
    let ghost prefix: Seq<u64> = seq![];
    proof { head_fin = *final(cur); }
    loop
        invariant
            view(head_fin) == prefix + view(*final(cur)),
            view(head0) == prefix + view(*cur),
        ensures (*cur).is_none(),
        decreases view(*cur).len()
    {
        match cur {
            None => { break; }
            Some(n) => {
                proof { prefix = prefix.push(n.v); }
                cur = &mut n.next;
            }
        }
    }
    assert(view(*cur) =~= seq![]);
    *cur = Some(Box::new(L { v: x, next: None }));
    proof {
        assert(view(*cur) =~= seq![x]) by { reveal_with_fuel(view, 3); }
        assert(prefix + seq![x] =~= (prefix + Seq::<u64>::empty()).push(x));
    }
    }
    assert(head == head_fin);
    head
}

} // verus!
fn main() {}
