use super::sweep_event::SweepEvent;
use super::compare_segments::compare_segments;
use geo_types::Coord;
use std::rc::{Rc, Weak};
use std::cmp::Ordering;

// ---- orientation oracle: an arbitrary alternating function of three points (memoised) ----
#[derive(Clone, Copy, PartialEq)]
struct P { x: f64, y: f64 }
fn plt(a: P, b: P) -> bool { a.x < b.x || (a.x == b.x && a.y < b.y) }
static mut MEMO_N: usize = 0;
static mut MEMO_K: [(P, P, P); 6] = [(P{x:0.,y:0.}, P{x:0.,y:0.}, P{x:0.,y:0.}); 6];
static mut MEMO_V: [i8; 6] = [0; 6];

/// sign (-1,0,1) of the oracle on the canonically sorted triple
fn oracle_sorted(a: P, b: P, c: P) -> i8 {
    unsafe {
        let mut i = 0;
        while i < 6 {
            if i < MEMO_N && MEMO_K[i].0 == a && MEMO_K[i].1 == b && MEMO_K[i].2 == c { return MEMO_V[i]; }
            i += 1;
        }
        let v: i8 = kani::any();
        kani::assume(v >= -1 && v <= 1);
        // degenerate triples are collinear
        if a == b || b == c || a == c { kani::assume(v == 0); }
        assert!(MEMO_N < 6);
        MEMO_K[MEMO_N] = (a, b, c); MEMO_V[MEMO_N] = v; MEMO_N += 1;
        v
    }
}
fn oracle(a: P, b: P, c: P) -> i8 {
    // sort (a,b,c) lexicographically, tracking permutation parity
    let (mut a, mut b, mut c, mut s) = (a, b, c, 1i8);
    if plt(b, a) { let t = a; a = b; b = t; s = -s; }
    if plt(c, b) { let t = b; b = c; c = t; s = -s; }
    if plt(b, a) { let t = a; a = b; b = t; s = -s; }
    s * oracle_sorted(a, b, c)
}
pub fn orient2d_contract<T: Into<f64>>(pa: robust::Coord<T>, pb: robust::Coord<T>, pc: robust::Coord<T>) -> f64 {
    let a = P { x: pa.x.into(), y: pa.y.into() };
    let b = P { x: pb.x.into(), y: pb.y.into() };
    let c = P { x: pc.x.into(), y: pc.y.into() };
    let s = oracle(a, b, c);
    let r: f64 = kani::any();
    kani::assume(r.is_finite());
    kani::assume((s > 0) == (r > 0.0));
    kani::assume((s < 0) == (r < 0.0));
    r
}

// ---- spec of the event order, from the property statement ----
#[derive(Clone, Copy)]
struct Ev { p: P, q: P, left: bool, subject: bool }
/// true iff a is processed before b
fn spec_before(a: Ev, b: Ev) -> bool {
    if a.p.x != b.p.x { a.p.x < b.p.x }
    else if a.p.y != b.p.y { a.p.y < b.p.y }
    else if a.left != b.left { !a.left }           // right before left
    else if oracle(a.p, a.q, b.q) != 0 {
        // angular: the event whose segment is below the other one's far endpoint comes first
        if a.left { oracle(a.p, a.q, b.q) > 0 } else { oracle(a.q, a.p, b.q) > 0 }
    }
    else { a.subject && !b.subject || !( !a.subject && b.subject) && false || (a.subject == b.subject) && false || a.subject && !b.subject }
}

fn any_finite() -> f64 { let v: f64 = kani::any(); kani::assume(v.is_finite()); v }
fn any_p() -> P { P { x: any_finite(), y: any_finite() } }

#[kani::proof]
#[kani::stub(robust::orient2d, orient2d_contract)]
#[kani::unwind(8)]
fn cmp_matches_spec() {
    let (p1, q1, p2, q2) = (any_p(), any_p(), any_p(), any_p());
    let (l1, l2, s1, s2): (bool, bool, bool, bool) = (kani::any(), kani::any(), kani::any(), kani::any());
    let a_o = SweepEvent::new_rc(1, Coord{x:q1.x,y:q1.y}, !l1, Weak::new(), s1, true);
    let a = SweepEvent::new_rc(1, Coord{x:p1.x,y:p1.y}, l1, Rc::downgrade(&a_o), s1, true);
    let b_o = SweepEvent::new_rc(2, Coord{x:q2.x,y:q2.y}, !l2, Weak::new(), s2, true);
    let b = SweepEvent::new_rc(2, Coord{x:p2.x,y:p2.y}, l2, Rc::downgrade(&b_o), s2, true);
    let r = a.cmp(&b);
    let ea = Ev { p: p1, q: q1, left: l1, subject: s1 };
    let eb = Ev { p: p2, q: q2, left: l2, subject: s2 };
    assert!(r != Ordering::Equal);
    // BinaryHeap is a max-heap: Greater == processed earlier
    if spec_before(ea, eb) { assert!(r == Ordering::Greater); }
}

use super::divide_segment::divide_segment;
use std::collections::BinaryHeap;


#[kani::proof]
#[kani::stub(robust::orient2d, orient2d_contract)]
#[kani::unwind(8)]
fn divide_segment_contract() {
    let (p, q, i) = (any_p(), any_p(), any_p());
    kani::assume(plt(p, q));
    // pre: division point strictly inside the x-extent box, different from both endpoints
    kani::assume(!(i == p) && !(i == q) && p.x <= i.x && i.x <= q.x);
    let s: bool = kani::any();
    let r = SweepEvent::new_rc(1, Coord{x:q.x,y:q.y}, false, Weak::new(), s, true);
    let l = SweepEvent::new_rc(1, Coord{x:p.x,y:p.y}, true, Rc::downgrade(&r), s, true);
    r.set_other_event(&l);
    let mut queue: BinaryHeap<Rc<SweepEvent<f64>>> = BinaryHeap::new();
    divide_segment(&l, Coord{x:i.x,y:i.y}, &mut queue);
    assert!(queue.len() == 2);
    let nr = l.get_other_event().unwrap();
    let nl = r.get_other_event().unwrap();
    assert!(Rc::ptr_eq(&nr.get_other_event().unwrap(), &l));
    assert!(Rc::ptr_eq(&nl.get_other_event().unwrap(), &r));
    assert!(l.is_left() && !nr.is_left());
    assert!(nl.is_left() != r.is_left());
    assert!(nr.point == nl.point);
    assert!(nr.point.y == i.y);
    assert!(nr.point.x == i.x || (i.x == p.x && i.y < p.y));
    assert!(l.is_before(&nr));
    if nl.is_left() { assert!(nl.is_before(&r)); } else { assert!(r.is_before(&nl)); }
}
