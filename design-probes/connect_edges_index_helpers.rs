use vstd::prelude::*;
use std::collections::HashSet;
verus! {
#[allow(clippy::needless_range_loop)] // Check has false positive here
#[verifier::exec_allows_no_decreases_clause]
fn precompute_iteration_order<T, I, L>(data: &[T], is_identical: I, is_left: L) -> Vec<usize>
where
    I: Fn(&T, &T) -> bool,
    L: Fn(&T) -> bool,
{
    let mut map = vec![0; data.len()];

    let mut i = 0;
    while i < data.len() {
        let x_ref = &data[i];

        // Find index range of R events
        let r_from = i;
        while i < data.len() && is_identical(x_ref, &data[i]) && !is_left(&data[i]) {
            i += 1;
        }
        let r_upto_exclusive = i;

        // Find index range of L event
        let l_from = i;
        while i < data.len() && is_identical(x_ref, &data[i]) {
            debug_assert!(is_left(&data[i]));
            i += 1;
        }
        let l_upto_exclusive = i;

        let has_r_events = r_upto_exclusive > r_from;
        let has_l_events = l_upto_exclusive > l_from;

        if has_r_events {
            let r_upto = r_upto_exclusive - 1;
            // Connect elements in [r_from, r_upto) to larger index
            for j in r_from..r_upto {
                map[j] = j + 1;
            }
            // Special handling of *last* element: Connect either the last L event
            // or loop back to start of R events (if no L events).
            if has_l_events {
                map[r_upto] = l_upto_exclusive - 1;
            } else {
                map[r_upto] = r_from;
            }
        }
        if has_l_events {
            let l_upto = l_upto_exclusive - 1;
            // Connect elements in (l_from, l_upto] to lower index
            for j in l_from + 1..=l_upto {
                map[j] = j - 1;
            }
            // Special handling of *first* element: Connect either to the first R event
            // or loop back to end of L events (if no R events).
            if has_r_events {
                map[l_from] = r_from;
            } else {
                map[l_from] = l_upto;
            }
        }
    }

    map
}

#[verifier::exec_allows_no_decreases_clause]
fn get_next_pos(pos: i32, processed: &HashSet<i32>, iteration_map: &[usize]) -> Option<i32> {
    let mut pos = pos;
    let start_pos = pos;

    loop {
        pos = iteration_map[pos as usize] as i32;
        if pos == start_pos {
            // Entire group is already processed?
            return None;
        } else if !processed.contains(&pos) {
            return Some(pos);
        }
    }
}


}
fn main(){}
