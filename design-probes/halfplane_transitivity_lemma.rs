use vstd::prelude::*;
verus! {
pub open spec fn cross(ax: int, ay: int, bx: int, by: int) -> int { ax * by - ay * bx }
pub open spec fn in_h(x: int, y: int) -> bool { x > 0 || (x == 0 && y > 0) }

proof fn lemma_plucker(x1: int, y1: int, x2: int, y2: int, x3: int, y3: int)
    ensures cross(x1,y1,x3,y3) * x2 == cross(x1,y1,x2,y2) * x3 + cross(x2,y2,x3,y3) * x1,
            cross(x1,y1,x3,y3) * y2 == cross(x1,y1,x2,y2) * y3 + cross(x2,y2,x3,y3) * y1,
{
    assert((x1 * y3 - y1 * x3) * x2 == (x1 * y2 - y1 * x2) * x3 + (x2 * y3 - y2 * x3) * x1) by(nonlinear_arith);
    assert((x1 * y3 - y1 * x3) * y2 == (x1 * y2 - y1 * x2) * y3 + (x2 * y3 - y2 * x3) * y1) by(nonlinear_arith);
}

proof fn lemma_halfplane_trans(x1: int, y1: int, x2: int, y2: int, x3: int, y3: int)
    requires in_h(x1,y1), in_h(x2,y2), in_h(x3,y3),
             cross(x1,y1,x2,y2) > 0, cross(x2,y2,x3,y3) > 0,
    ensures cross(x1,y1,x3,y3) > 0
{
    lemma_plucker(x1,y1,x2,y2,x3,y3);
    let c12 = cross(x1,y1,x2,y2); let c23 = cross(x2,y2,x3,y3); let c13 = cross(x1,y1,x3,y3);
    if x2 > 0 {
        assert(c12 * x3 >= 0) by(nonlinear_arith) requires c12 > 0, x3 >= 0;
        assert(c23 * x1 >= 0) by(nonlinear_arith) requires c23 > 0, x1 >= 0;
        if x1 == 0 && x3 == 0 {
            // v1 vertical up: c12 = x1*y2 - y1*x2 = -y1*x2 < 0, contradiction
            assert(y1 * x2 > 0) by(nonlinear_arith) requires y1 > 0, x2 > 0;
            assert(false);
        } else {
            if x1 > 0 { assert(c23 * x1 > 0) by(nonlinear_arith) requires c23 > 0, x1 > 0; }
            if x3 > 0 { assert(c12 * x3 > 0) by(nonlinear_arith) requires c12 > 0, x3 > 0; }
            assert(c13 * x2 > 0);
            assert(c13 > 0) by(nonlinear_arith) requires c13 * x2 > 0, x2 > 0;
        }
    } else {
        // x2 == 0, y2 > 0: c12 = x1*y2 > 0 => x1 > 0 ; c23 = -y2*x3 > 0 => x3 < 0 contradiction with in_h unless...
        assert(x2 == 0 && y2 > 0);
        assert(c23 == -(y2 * x3)) by(nonlinear_arith) requires c23 == x2 * y3 - y2 * x3, x2 == 0;
        assert(y2 * x3 >= 0) by(nonlinear_arith) requires y2 > 0, x3 >= 0;
        assert(false);
    }
}
}
fn main() {}
