use vstd::prelude::*;
use std::cmp::Ordering;
use std::mem;
use std::fmt;
verus! {
pub assume_specification<T> [std::mem::replace] (dest: &mut T, src: T) -> (res: T)
    ensures res == *old(dest), *final(dest) == src;
pub struct Node<K, V> {
    pub key: K,
    pub value: V,
    pub left: Option<Box<Node<K, V>>>,
    pub right: Option<Box<Node<K, V>>>,
}

impl<K, V> Node<K, V> {
    #[verifier::exec_allows_no_decreases_clause]
    pub fn new_boxed(k: K, v: V, l: Option<Box<Node<K, V>>>, r: Option<Box<Node<K, V>>>) -> Box<Node<K, V>> {
        Box::new(Node {
            key: k,
            value: v,
            left: l,
            right: r,
        })
    }

    #[inline(always)]
    #[verifier::exec_allows_no_decreases_clause]
    pub fn pop_left(&mut self) -> Option<Box<Node<K, V>>> {
        self.left.take()
    }

    #[inline(always)]
    #[verifier::exec_allows_no_decreases_clause]
    pub fn pop_right(&mut self) -> Option<Box<Node<K, V>>> {
        self.right.take()
    }
}


pub struct SplayTree<K, V, C>
where
    C: Fn(&K, &K) -> Ordering,
{
    comparator: C,
    root: Option<Box<Node<K, V>>>,
    size: usize,
}

impl<K, V, C> SplayTree<K, V, C>
where
    C: Fn(&K, &K) -> Ordering,
{
    #[verifier::exec_allows_no_decreases_clause]
    pub fn new(comparator: C) -> SplayTree<K, V, C> {
        SplayTree {
            comparator,
            root: None,
            size: 0,
        }
    }
    #[verifier::exec_allows_no_decreases_clause]
    pub fn len(&self) -> usize {
        self.size
    }

    #[verifier::exec_allows_no_decreases_clause]

    pub fn is_empty(&self) -> bool {
        self.len() == 0
    }

    #[verifier::exec_allows_no_decreases_clause]

    pub fn clear(&mut self) {
        (&mut self.root).take();
        self.size = 0;
    }

    #[verifier::exec_allows_no_decreases_clause]

    pub fn contains(&mut self, key: &K) -> bool {
        self.find_key(key).is_some()
    }

    #[verifier::exec_allows_no_decreases_clause]

    pub fn get(&mut self, key: &K) -> Option<&V> {
        // Splay trees are self-modifying, which is the cause of this ugly mess
        match (&mut self.root) {
            Some(ref mut root) => {
                splay(key, root, &self.comparator);
                if (self.comparator)(key, &root.key) == Ordering::Equal {
                    Some(&root.value)
                } else {
                    None
                }
            }
            None => None,
        }
    }

    /// Return a mutable reference to the value corresponding to the key
    #[verifier::exec_allows_no_decreases_clause]
    pub fn get_mut(&mut self, key: &K) -> Option<&mut V> {
        // Splay trees are self-modifying, which is the cause of this ugly mess
        match (&mut self.root) {
            Some(ref mut root) => {
                splay(key, root, &self.comparator);
                if (self.comparator)(key, &root.key) == Ordering::Equal {
                    Some(&mut root.value)
                } else {
                    None
                }
            }
            None => None,
        }
    }

    #[verifier::exec_allows_no_decreases_clause]

    pub fn find_key(&mut self, key: &K) -> Option<&K> {
        // Splay trees are self-modifying, which is the cause of this ugly mess
        match (&mut self.root) {
            Some(ref mut root) => {
                splay(key, root, &self.comparator);
                if (self.comparator)(key, &root.key) == Ordering::Equal {
                    Some(&root.key)
                } else {
                    None
                }
            }
            None => None,
        }
    }

    #[verifier::exec_allows_no_decreases_clause]

    pub fn next(&mut self, key: &K) -> Option<(&K, &V)> {
        // Splay trees are self-modifying, which is the cause of this ugly mess
        let mut node: &Node<K, V> = match (&mut self.root) {
            Some(ref mut root) => {
                splay(key, root, &self.comparator);
                root
            }
            None => return None,
        };

        let mut successor: Option<(&K, &V)> = None;

        loop {
            match (self.comparator)(key, &node.key) {
                Ordering::Less => {
                    successor = Some((&node.key, &node.value));
                    match node.left {
                        Some(ref left) => node = left,
                        None => break,
                    }
                }
                Ordering::Equal | Ordering::Greater => match node.right {
                    Some(ref right) => node = right,
                    None => break,
                },
            }
        }

        successor
    }

    #[verifier::exec_allows_no_decreases_clause]

    pub fn prev(&mut self, key: &K) -> Option<(&K, &V)> {
        // Splay trees are self-modifying, which is the cause of this ugly mess
        let mut node: &Node<K, V> = match (&mut self.root) {
            Some(ref mut root) => {
                splay(key, root, &self.comparator);
                root
            }
            None => return None,
        };

        let mut predecessor: Option<(&K, &V)> = None;

        loop {
            match (self.comparator)(key, &node.key) {
                Ordering::Equal | Ordering::Less => match node.left {
                    Some(ref left) => node = left,
                    None => break,
                },
                Ordering::Greater => {
                    predecessor = Some((&node.key, &node.value));
                    match node.right {
                        Some(ref right) => node = right,
                        None => break,
                    }
                }
            }
        }

        predecessor
    }

    #[verifier::exec_allows_no_decreases_clause]

    pub fn insert(&mut self, key: K, value: V) -> Option<V> {
        match (&mut self.root) {
            Some(ref mut root) => {
                splay(&key, root, &self.comparator);

                match (self.comparator)(&key, &root.key) {
                    Ordering::Equal => {
                        let old = mem::replace(&mut root.value, value);
                        return Some(old);
                    }
                    Ordering::Less => {
                        let left = root.pop_left();
                        let new = Node::new_boxed(key, value, left, None);
                        let prev = mem::replace(root, new);
                        root.right = Some(prev);
                    }
                    Ordering::Greater => {
                        let right = root.pop_right();
                        let new = Node::new_boxed(key, value, None, right);
                        let prev = mem::replace(root, new);
                        root.left = Some(prev);
                    }
                }
            }
            slot => {
                *slot = Some(Node::new_boxed(key, value, None, None));
            }
        }
        self.size += 1;
        None
    }

    #[verifier::exec_allows_no_decreases_clause]

    pub fn remove(&mut self, key: &K) -> Option<V> {
        match *(&mut self.root) {
            None => {
                return None;
            }
            Some(ref mut root) => {
                splay(key, root, &self.comparator);
                if (self.comparator)(key, &root.key) != Ordering::Equal {
                    return None;
                }
            }
        }

        let Node { left, right, value, .. } = *(&mut self.root).take().unwrap();

        *(&mut self.root) = match left {
            None => right,
            Some(mut node) => {
                splay(key, &mut node, &self.comparator);
                node.right = right;
                Some(node)
            }
        };

        self.size -= 1;
        Some(value)
    }

    #[verifier::exec_allows_no_decreases_clause]

    pub fn min(&self) -> Option<&K> {
        self.min_node().map(|node| &node.key)
    }

    #[verifier::exec_allows_no_decreases_clause]

    pub fn max(&self) -> Option<&K> {
        self.max_node().map(|node| &node.key)
    }

    #[verifier::exec_allows_no_decreases_clause]

    fn min_node(&self) -> Option<&Node<K, V>> {
        match (&self.root) {
            Some(ref root) => {
                let mut node = root;

                while let Some(ref left) = node.left {
                    node = left
                }
                Some(node)
            }
            None => None,
        }
    }

    #[verifier::exec_allows_no_decreases_clause]

    fn max_node(&self) -> Option<&Node<K, V>> {
        match (&self.root) {
            Some(ref root) => {
                let mut node = root;

                while let Some(ref right) = node.right {
                    node = right
                }
                Some(node)
            }
            None => None,
        }
    }

}

impl<K, V, C> IntoIterator for SplayTree<K, V, C>
where
    C: Fn(&K, &K) -> Ordering,
{
    type Item = (K, V);
    type IntoIter = IntoIter<K, V>;

    #[verifier::exec_allows_no_decreases_clause]

    fn into_iter(self) -> Self::IntoIter {
        let mut this = self;
        IntoIter {
            cur: (&mut this.root).take(),
            remaining: this.size,
        }
    }
}

pub struct IntoIter<K, V> {
    cur: Option<Box<Node<K, V>>>,
    remaining: usize,
}

impl<K, V> Iterator for IntoIter<K, V> {
    type Item = (K, V);
    #[verifier::exec_allows_no_decreases_clause]
    fn next(&mut self) -> Option<(K, V)> {
        let mut cur = match self.cur.take() {
            Some(cur) => cur,
            None => return None,
        };
        loop {
            match cur.pop_left() {
                Some(node) => {
                    let mut node = node;
                    cur.left = node.pop_right();
                    node.right = Some(cur);
                    cur = node;
                }

                None => {
                    self.cur = cur.pop_right();
                    // left and right fields are both None
                    let node = *cur;
                    let Node { key, value, .. } = node;
                    self.remaining -= 1;
                    return Some((key, value));
                }
            }
        }
    }

    #[verifier::exec_allows_no_decreases_clause]

    fn size_hint(&self) -> (usize, Option<usize>) {
        (self.remaining, Some(self.remaining))
    }
}

impl<K, V> DoubleEndedIterator for IntoIter<K, V> {
    #[verifier::exec_allows_no_decreases_clause]
    fn next_back(&mut self) -> Option<(K, V)> {
        let mut cur = match self.cur.take() {
            Some(cur) => cur,
            None => return None,
        };
        loop {
            match cur.pop_right() {
                Some(node) => {
                    let mut node = node;
                    cur.right = node.pop_left();
                    node.left = Some(cur);
                    cur = node;
                }

                None => {
                    self.cur = cur.pop_left();
                    // left and right fields are both None
                    let node = *cur;
                    let Node { key, value, .. } = node;
                    self.remaining -= 1;
                    return Some((key, value));
                }
            }
        }
    }
}

impl<K, V> ExactSizeIterator for IntoIter<K, V> {}

/// Performs a top-down splay operation on a tree rooted at `node`. This will
/// modify the pointer to contain the new root of the tree once the splay
/// operation is done. When finished, if `key` is in the tree, it will be at the
/// root. Otherwise the closest key to the specified key will be at the root.
#[allow(clippy::borrowed_box)]
#[verifier::exec_allows_no_decreases_clause]
fn splay<K, V, C>(key: &K, node: &mut Box<Node<K, V>>, comparator: &C)
where
    C: Fn(&K, &K) -> Ordering,
{
    let mut newleft = None;
    let mut newright = None;

    // Eplicitly grab a new scope so the loans on newleft/newright are
    // terminated before we move out of them.
    {
        // Yes, these are backwards, that's intentional.
        let mut l = &mut newright;
        let mut r = &mut newleft;

        loop {
            match comparator(key, &node.key) {
                // Found it, yay!
                Ordering::Equal => break,

                Ordering::Less => {
                    let mut left = match node.pop_left() {
                        Some(left) => left,
                        None => break,
                    };
                    // rotate this node right if necessary
                    if comparator(key, &left.key) == Ordering::Less {
                        // A bit odd, but avoids drop glue
                        mem::swap(&mut node.left, &mut left.right);
                        mem::swap(&mut left, node);
                        let none = mem::replace(&mut node.right, Some(left));
                        match mem::replace(&mut node.left, none) {
                            Some(l) => {
                                left = l;
                            }
                            None => break,
                        }
                    }

                    *r = Some(mem::replace(node, left));
                    let tmp = r;
                    r = &mut tmp.as_mut().unwrap().left;
                }

                // If you look closely, you may have seen some similar code
                // before
                Ordering::Greater => {
                    let mut right = match node.pop_right() {
                        Some(right) => right,
                        None => break,
                    };

                    if comparator(key, &right.key) == Ordering::Greater {
                        mem::swap(&mut node.right, &mut right.left);
                        mem::swap(&mut right, node);
                        let none = mem::replace(&mut node.left, Some(right));
                        match mem::replace(&mut node.right, none) {
                            Some(r) => {
                                right = r;
                            }
                            None => break,
                        }
                    }
                    *l = Some(mem::replace(node, right));
                    let tmp = l;
                    l = &mut tmp.as_mut().unwrap().right;
                }
            }
        }

        mem::swap(l, &mut node.left);
        mem::swap(r, &mut node.right);
    }

    node.left = newright;
    node.right = newleft;
}

}
#[verifier::exec_allows_no_decreases_clause]
fn main(){}
