use super::sweep_event::{SweepEvent, EdgeType, ResultTransition};
use super::compute_fields::compute_fields;
use super::Operation;
use geo_types::Coord;
use std::rc::{Rc, Weak};

fn any_op() -> Operation { match kani::any::<u8>() % 4 { 0 => Operation::Intersection, 1 => Operation::Difference, 2 => Operation::Union, _ => Operation::Xor } }
fn any_et() -> EdgeType { match kani::any::<u8>() % 4 { 0 => EdgeType::Normal, 1 => EdgeType::NonContributing, 2 => EdgeType::SameTransition, _ => EdgeType::DifferentTransition } }
fn member(op: Operation, s: bool, c: bool) -> bool { match op { Operation::Intersection => s && c, Operation::Union => s || c, Operation::Difference => s && !c, Operation::Xor => s != c } }

#[kani::proof]
fn compute_fields_selection_matches_boolean_semantics() {
    let op = any_op();
    let subj: bool = kani::any();
    let vertical_prev: bool = kani::any();
    // prev segment with arbitrary recorded classification
    let px: f64 = if vertical_prev { 0.0 } else { 1.0 };
    let prev_r = SweepEvent::new_rc(1, Coord { x: px, y: 1.0 }, false, Weak::new(), kani::any(), true);
    let prev = SweepEvent::new_rc(1, Coord { x: 0.0, y: 0.0 }, true, Rc::downgrade(&prev_r), prev_r.is_subject, true);
    prev.set_in_out(kani::any(), kani::any());
    let ev_r = SweepEvent::new_rc(2, Coord { x: 2.0, y: 3.0 }, false, Weak::new(), subj, true);
    let ev = SweepEvent::new_rc(2, Coord { x: 0.0, y: 2.0 }, true, Rc::downgrade(&ev_r), subj, true);
    let et = any_et();
    ev.set_edge_type(et);
    let has_prev: bool = kani::any();
    compute_fields(&ev, if has_prev { Some(&prev) } else { None }, op);

    // spec, from the property statement: membership of own / other operand just below and just above
    let own_above = !ev.is_in_out();
    let own_below = !own_above;
    let (oth_below, oth_above) = match et {
        EdgeType::Normal | EdgeType::NonContributing => (!ev.is_other_in_out(), !ev.is_other_in_out()),
        EdgeType::SameTransition => (own_below, own_above),
        EdgeType::DifferentTransition => (own_above, own_below),
    };
    let (s_b, c_b) = if subj { (own_below, oth_below) } else { (oth_below, own_below) };
    let (s_a, c_a) = if subj { (own_above, oth_above) } else { (oth_above, own_above) };
    let below = member(op, s_b, c_b);
    let above = member(op, s_a, c_a);
    if et != EdgeType::NonContributing {
        assert!(ev.is_in_result() == (below != above));
        if below != above {
            assert!((ev.get_result_transition() == ResultTransition::OutIn) == above);
        }
    } else {
        assert!(!ev.is_in_result());
    }
    std::mem::forget((prev, prev_r, ev, ev_r));
}
