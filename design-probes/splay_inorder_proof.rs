use vstd::prelude::*;
use std::cmp::Ordering;
use std::mem;
verus! {

pub assume_specification<T> [std::mem::replace] (dest: &mut T, src: T) -> (res: T)
    ensures res == *old(dest), *final(dest) == src;

pub struct Node<K, V> {
    pub key: K,
    pub value: V,
    pub left: Option<Box<Node<K, V>>>,
    pub right: Option<Box<Node<K, V>>>,
}

pub open spec fn inorder<K, V>(t: Option<Box<Node<K, V>>>) -> Seq<(K, V)>
    decreases t
{
    match t {
        None => Seq::empty(),
        Some(n) => inorder(n.left) + seq![(n.key, n.value)] + inorder(n.right),
    }
}

pub open spec fn nseq<K, V>(n: Node<K, V>) -> Seq<(K, V)> {
    inorder(n.left) + seq![(n.key, n.value)] + inorder(n.right)
}

impl<K, V> Node<K, V> {
    #[inline(always)]
    pub fn pop_left(&mut self) -> (res: Option<Box<Node<K, V>>>)
        ensures res == old(self).left, final(self).left.is_none(), final(self).right == old(self).right,
          final(self).key == old(self).key, final(self).value == old(self).value
    {
        self.left.take()
    }
    #[inline(always)]
    pub fn pop_right(&mut self) -> (res: Option<Box<Node<K, V>>>)
        ensures res == old(self).right, final(self).right.is_none(), final(self).left == old(self).left,
          final(self).key == old(self).key, final(self).value == old(self).value
    {
        self.right.take()
    }
}

fn splay<K, V, C>(key: &K, node: &mut Box<Node<K, V>>, comparator: &C)
where
    C: Fn(&K, &K) -> Ordering,
    requires forall|x: &K, y: &K| call_requires(comparator, (x, y)),
    ensures nseq(**final(node)) == nseq(**old(node)),
{
    let mut newleft = None;
    let mut newright = None;
    let ghost s0 = nseq(**node);
    let ghost mut lpre: Seq<(K, V)> = Seq::empty();
    let ghost mut rpost: Seq<(K, V)> = Seq::empty();
    #[verifier::prophetic] let ghost mut lfin: Option<Box<Node<K, V>>> = None;
    #[verifier::prophetic] let ghost mut rfin: Option<Box<Node<K, V>>> = None;

    // Eplicitly grab a new scope so the loans on newleft/newright are
    // terminated before we move out of them.
    {
        // Yes, these are backwards, that's intentional.
        let mut l = &mut newright;
        let mut r = &mut newleft;
        proof { lfin = *final(l); rfin = *final(r); }

        loop
          invariant
            forall|x: &K, y: &K| call_requires(comparator, (x, y)),
            s0 == lpre + nseq(**node) + rpost,
            inorder(lfin) == lpre + inorder(*final(l)),
            inorder(rfin) == inorder(*final(r)) + rpost,
            (*l).is_none(),
            (*r).is_none(),
          decreases nseq(**node).len()
        {
            match comparator(key, &node.key) {
                // Found it, yay!
                Ordering::Equal => break,

                Ordering::Less => {
                    let ghost n0 = **node;
                    let mut left = match node.pop_left() {
                        Some(left) => left,
                        None => break,
                    };
                    let ghost l0 = *left;
                    proof {
                        assert(inorder(n0.left) =~= nseq(l0));
                        assert(nseq(**node) =~= seq![(n0.key, n0.value)] + inorder(n0.right));
                        assert(nseq(n0) =~= nseq(l0) + nseq(**node));
                    }
                    // rotate this node right if necessary
                    if comparator(key, &left.key) == Ordering::Less {
                        // A bit odd, but avoids drop glue
                        mem::swap(&mut node.left, &mut left.right);
                        mem::swap(&mut left, node);
                        let none = mem::replace(&mut node.right, Some(left));
                        match mem::replace(&mut node.left, none) {
                            Some(l) => {
                                left = l;
                                proof {
                                    assert(inorder(l0.left) =~= nseq(*left));
                                    assert(node.left.is_none());
                                    assert(nseq(**node) =~= seq![(l0.key, l0.value)] + (inorder(l0.right) + seq![(n0.key, n0.value)] + inorder(n0.right)));
                                    assert(nseq(n0) =~= nseq(*left) + nseq(**node));
                                }
                            }
                            None => {
                                proof {
                                    assert(inorder(l0.left) =~= Seq::<(K, V)>::empty());
                                    assert(nseq(**node) =~= seq![(l0.key, l0.value)] + (inorder(l0.right) + seq![(n0.key, n0.value)] + inorder(n0.right)));
                                    assert(nseq(n0) =~= nseq(**node));
                                }
                                break
                            }
                        }
                    }

                    proof {
                        assert(node.left.is_none());
                        assert(nseq(n0) =~= nseq(*left) + nseq(**node));
                        assert(s0 =~= lpre + nseq(*left) + (nseq(**node) + rpost));
                        assert(inorder(Some(*node)) =~= nseq(**node));
                        rpost = nseq(**node) + rpost;
                    }
                    *r = Some(mem::replace(node, left));
                    let tmp = r;
                    r = &mut tmp.as_mut().unwrap().left;
                }

                // If you look closely, you may have seen some similar code
                // before
                Ordering::Greater => {
                    let ghost n0 = **node;
                    let mut right = match node.pop_right() {
                        Some(right) => right,
                        None => break,
                    };
                    let ghost r0 = *right;
                    proof {
                        assert(inorder(n0.right) =~= nseq(r0));
                        assert(nseq(**node) =~= inorder(n0.left) + seq![(n0.key, n0.value)]);
                        assert(nseq(n0) =~= nseq(**node) + nseq(r0));
                    }

                    if comparator(key, &right.key) == Ordering::Greater {
                        mem::swap(&mut node.right, &mut right.left);
                        mem::swap(&mut right, node);
                        let none = mem::replace(&mut node.left, Some(right));
                        match mem::replace(&mut node.right, none) {
                            Some(r) => {
                                right = r;
                                proof {
                                    assert(inorder(r0.right) =~= nseq(*right));
                                    assert(node.right.is_none());
                                    assert(nseq(**node) =~= (inorder(n0.left) + seq![(n0.key, n0.value)] + inorder(r0.left)) + seq![(r0.key, r0.value)]);
                                    assert(nseq(n0) =~= nseq(**node) + nseq(*right));
                                }
                            }
                            None => {
                                proof {
                                    assert(inorder(r0.right) =~= Seq::<(K, V)>::empty());
                                    assert(nseq(**node) =~= (inorder(n0.left) + seq![(n0.key, n0.value)] + inorder(r0.left)) + seq![(r0.key, r0.value)]);
                                    assert(nseq(n0) =~= nseq(**node));
                                }
                                break
                            }
                        }
                    }
                    proof {
                        assert(node.right.is_none());
                        assert(nseq(n0) =~= nseq(**node) + nseq(*right));
                        assert(s0 =~= (lpre + nseq(**node)) + nseq(*right) + rpost);
                        assert(inorder(Some(*node)) =~= nseq(**node));
                        lpre = lpre + nseq(**node);
                    }
                    *l = Some(mem::replace(node, right));
                    let tmp = l;
                    l = &mut tmp.as_mut().unwrap().right;
                }
            }
        }

        mem::swap(l, &mut node.left);
        mem::swap(r, &mut node.right);
    }

    node.left = newright;
    node.right = newleft;
}

} // verus!
fn main() {}
