// T-1 (tool finding, not a finding about rust-geo-booleanop): Kani 0.68 / CBMC 6.11 verdict that depends on crate hashes.
//
// Place this module in any crate that has at least one dependency which (transitively) uses a proc-macro crate, run
//     cargo kani --harness t1_heap_pointer_in_static
// then change the version of `unicode-ident` in Cargo.lock (1.0.18 / 1.0.24 / 1.0.25 / 1.0.26 are in this sandbox's registry:
// `cargo update --offline -p unicode-ident --precise <v>`) and run it again.  The generated code is identical; only the crate
// hashes (and with them the mangled symbol names) change.  Observed on 2026-09-26 inside /repo's lib crate:
//     1.0.24: VERIFICATION SUCCESSFUL (0 of 358 failed, 6 unreachable)
//     1.0.18, 1.0.25, 1.0.26: VERIFICATION FAILED (13 of 358 failed, 7-8 unreachable): `Vec::push` on the fresh vector writes through an
//     invalid pointer; `RawVecInner::grow_amortized` is reported UNREACHABLE, i.e. CBMC decided that `len == capacity` is false for
//     `Vec::new()`.
// Storing the pointer in a local instead of the static makes all four builds verify.  The variant that stores
// `Box::into_raw(Box::new(rc.clone()))` (a pointer to the start of a heap object) fails in 1.0.25 only.
//
// Consequences drawn in /verif (DESIGN.md 11.8): harness code keeps no heap pointer in a static where avoidable; every harness
// must give the same verdict on the unchanged tree in all four builds (tools/universes.py); an unreplayable refutation counts
// only when reproduced in builds with different hashes and without the std-internal memory-safety signature.
#[cfg(kani)]
mod t1 {
    use std::rc::Rc;
    static mut SLOT: *const () = std::ptr::null();

    #[kani::proof]
    #[kani::unwind(4)]
    fn t1_heap_pointer_in_static() {
        let r: Rc<u64> = Rc::new(5);
        unsafe {
            SLOT = Rc::as_ptr(&r) as *const ();
        }
        let mut v: Vec<Rc<u64>> = Vec::new();
        v.push(r.clone());
        assert!(v.len() == 1 && Rc::ptr_eq(&v[0], &r));
        std::mem::forget((v, r));
    }
}
