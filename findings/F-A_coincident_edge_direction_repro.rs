use geo_booleanop::boolean::BooleanOp;
use geo_types::{Coord, LineString, Polygon, MultiPolygon};
fn ring(v: &[(f64,f64)]) -> LineString<f64> { LineString(v.iter().map(|&(x,y)| Coord{x,y}).collect()) }
fn show(name: &str, m: &MultiPolygon<f64>) {
    println!("{}: {} polygons", name, m.0.len());
    for p in &m.0 { println!("  ext {:?}", p.exterior().0.iter().map(|c|(c.x,c.y)).collect::<Vec<_>>());
        for h in p.interiors() { println!("    hole {:?}", h.0.iter().map(|c|(c.x,c.y)).collect::<Vec<_>>()); } }
}
fn main() {
    let a = Polygon::new(ring(&[(0.,0.),(4.,0.),(4.,4.),(0.,4.),(0.,0.)]), vec![ring(&[(1.,1.),(1.,3.),(3.,3.),(3.,1.),(1.,1.)])]);
    let b = Polygon::new(ring(&[(0.,0.),(4.,0.),(4.,5.),(0.,5.),(0.,0.)]), vec![]);
    show("A&B", &a.intersection(&b));
    show("A|B", &a.union(&b));
    show("B-A", &b.difference(&a));
    let c = Polygon::new(ring(&[(0.,0.),(4.,0.),(4.,4.),(0.,4.),(0.,0.)]), vec![]);
    let d = Polygon::new(ring(&[(1.,1.),(3.,1.),(3.,3.),(1.,3.),(1.,1.)]), vec![]);
    // (c - d) has a hole; intersect with b sharing the bottom edge
    let cd = c.difference(&d);
    show("C-D", &cd);
    show("(C-D)&B", &cd.intersection(&b));
}
