//! U-I3 / U-I4 (C16, C13, C04, C03, C10): `divide_segment` and `possible_intersection`.
//! All finite floats; orientation is an oracle; `intersection` is replaced by its contract (any classification whose
//! points lie inside both bounding boxes -- U-I1 -- the geometric exactness being the business of the segint unit).
use super::super::divide_segment::divide_segment;
use super::super::helper::{Float, NextAfter};
use super::super::possible_intersection::possible_intersection;
use super::super::segment_intersection::LineIntersection;
use super::super::sweep_event::{EdgeType, SweepEvent};
use super::intersect::in_box;
use super::order::{ev_before, orient, pt_lt, register_points, Ev, P};
use super::src::*;
use geo_types::Coord;
use std::collections::BinaryHeap;
use std::rc::{Rc, Weak};

fn fin<F: AnyF, S: Src>(s: &mut S) -> F {
    let v = F::any(s);
    s.assume(v.is_finite());
    v
}

fn pt<F: AnyF, S: Src>(s: &mut S) -> Coord<F> {
    Coord { x: fin::<F, S>(s), y: fin::<F, S>(s) }
}

fn w<F: AnyF>(c: Coord<F>) -> P {
    P { x: c.x.into(), y: c.y.into() }
}

/// events pushed since the recorder held n0 entries (Kani: from the push contract stub; replay: drained from the real heap)
#[cfg(not(kani))]
fn take_pushed<F: AnyF>(_n0: usize, queue: BinaryHeap<Rc<SweepEvent<F>>>) -> Vec<Rc<SweepEvent<F>>> {
    queue.into_vec()
}

#[cfg(kani)]
fn take_pushed<F: AnyF>(n0: usize, queue: BinaryHeap<Rc<SweepEvent<F>>>) -> Vec<Rc<SweepEvent<F>>> {
    std::mem::forget(queue);
    let mut v = Vec::with_capacity(8);
    let mut i = n0;
    while i < pushed_count() {
        v.push(unsafe { pushed::<Rc<SweepEvent<F>>>(i) });
        i += 1;
    }
    v
}

/// a segment as a linked left/right pair, left first in event order
fn seg<F: AnyF>(id: u32, p: Coord<F>, q: Coord<F>, subj: bool) -> (Rc<SweepEvent<F>>, Rc<SweepEvent<F>>) {
    let r = SweepEvent::new_rc(id, q, false, Weak::new(), subj, true);
    let l = SweepEvent::new_rc(id, p, true, Rc::downgrade(&r), subj, true);
    r.set_other_event(&l);
    (l, r)
}

fn linked<F: AnyF>(a: &Rc<SweepEvent<F>>, b: &Rc<SweepEvent<F>>) -> bool {
    let (x, y) = (a.get_other_event(), b.get_other_event());
    let ok = match (&x, &y) {
        (Some(x), Some(y)) => Rc::ptr_eq(x, b) && Rc::ptr_eq(y, a),
        _ => false,
    };
    std::mem::forget((x, y));
    ok
}

/// the sub-segment invariant of C13: mutually linked pair, exactly one left flag, the left event first, non-zero length
fn is_subsegment<F: AnyF>(l: &Rc<SweepEvent<F>>, r: &Rc<SweepEvent<F>>) -> bool {
    let el = Ev { p: w(l.point), q: w(r.point), left: l.is_left(), subject: l.is_subject, contour: l.contour_id };
    let er = Ev { p: w(r.point), q: w(l.point), left: r.is_left(), subject: r.is_subject, contour: r.contour_id };
    linked(l, r) && l.is_left() && !r.is_left() && ev_before(el, er) && l.point != r.point
}

/// U-I3.  requires: a proper sub-segment (l, r); the division point differs from both ends and is not left of the left end
/// (in particular: any point of the segment's bounding box).
/// ensures: two new events, both at the division point (bumped by one ulp in x in the documented corner case), pushed
/// exactly once each; (l, r') and (l', r) -- or (r, l') when the remainder is re-oriented -- are proper sub-segments
/// again; operand and contour id inherited; chain: the two pieces meet in the division point.
pub fn divide_segment_contract_body<F: AnyF, S: Src>(s: &mut S) {
    let (p, q, i) = (pt::<F, S>(s), pt::<F, S>(s), pt::<F, S>(s));
    let subj = s.bool();
    let id = s.u32();
    // the bumped point has to be known to the orientation oracle
    let bump = Coord { x: i.x.nextafter(true), y: i.y };
    register_points(&[w(p), w(q), w(i), w(bump)]);
    s.assume(pt_lt(w(p), w(q)));
    s.assume(i != p && i != q && i.x >= p.x);
    s.assume(bump.x.is_finite());
    let bumped = i.x == p.x && i.y < p.y;
    // N2 corner of the corner: the bumped point may coincide with the right end (right end one ulp right of the left end)
    s.assume(!(bumped && bump == q));
    let (l, r) = seg(id, p, q, subj);
    vcover!(bumped, "corner-case-1-bump");
    vcover!(i.x == q.x && i.y > q.y, "vertical-remainder-swap");
    vcover!(i.x > p.x && i.x < q.x, "interior");

    divide_and_check(l, r, i, subj, id, bump, bumped);
}

/// the call of the real `divide_segment` and the postcondition of U-I3, shared by the general contract harness and the
/// concrete-coordinate instances
fn divide_and_check<F: AnyF>(l: Rc<SweepEvent<F>>, r: Rc<SweepEvent<F>>, i: Coord<F>, subj: bool, id: u32, bump: Coord<F>, bumped: bool) {
    let mut queue: BinaryHeap<Rc<SweepEvent<F>>> = BinaryHeap::new();
    let n0 = pushed_count();
    divide_segment(&l, i, &mut queue);

    let pushed = take_pushed::<F>(n0, queue);
    assert!(pushed.len() == 2, "C13: a division pushes exactly two events");
    let nr = l.get_other_event().unwrap(); // new right end of the left piece
    let nl = r.get_other_event().unwrap(); // new event of the right piece
    assert!((Rc::ptr_eq(&pushed[0], &nr) && Rc::ptr_eq(&pushed[1], &nl)) || (Rc::ptr_eq(&pushed[0], &nl) && Rc::ptr_eq(&pushed[1], &nr)),
        "C13: the two pushed events are the two new ends");
    assert!(!Rc::ptr_eq(&nr, &nl) && !Rc::ptr_eq(&nr, &r) && !Rc::ptr_eq(&nl, &l), "C13: new events are fresh");
    // where
    assert!(nr.point == nl.point, "C16: both pieces end in one and the same point");
    if !bumped {
        assert!(nr.point == i, "C16/C04: division exactly at the given point");
    } else {
        assert!(nr.point == bump, "C16 (N2): division point sharing x with the left endpoint, below it: x bumped by exactly one ulp");
    }
    // sub-segment invariant re-established for both pieces
    assert!(is_subsegment(&l, &nr), "C13: left piece is a linked left/right pair, left first, non-zero length");
    assert!(is_subsegment(&nl, &r) || is_subsegment(&r, &nl), "C13: right piece is a linked left/right pair, left first, non-zero length");
    // inherited attributes
    assert!(nr.is_subject == subj && nl.is_subject == subj && nr.contour_id == id && nl.contour_id == id, "C13: operand and contour id inherited");
    std::mem::forget((pushed, nr, nl, l, r));
}

/// U-I3 on concrete coordinates with symbolic operand flag and contour id (cheap enough for the quick tier; the general
/// harness above is the thorough one).  which = 0: interior division of (0,0)-(4,2) at (2,1); which = 1: division at
/// (4,3), straight above the right end, so that the remainder is vertical and re-oriented (corner case 2).
pub fn divide_segment_instance_body<S: Src>(s: &mut S, which: u8) {
    let (p, q): (Coord<f64>, Coord<f64>) = (Coord { x: 0.0, y: 0.0 }, Coord { x: 4.0, y: 2.0 });
    let i: Coord<f64> = if which == 0 { Coord { x: 2.0, y: 1.0 } } else { Coord { x: 4.0, y: 3.0 } };
    let subj = s.bool();
    let id = s.u32();
    let bump = Coord { x: i.x.nextafter(true), y: i.y };
    register_points(&[w(p), w(q), w(i)]);
    let (l, r) = seg(id, p, q, subj);
    vcover!(!subj, "clipping-operand");
    divide_and_check(l, r, i, subj, id, bump, false);
}

/// Known finding N2, concrete instance (C16: "one and the same point"): dividing (0,5)-(5,0) at (0,3) -- a point of its
/// bounding box that shares x with the left end and lies below it -- does not divide at (0,3) but one ulp to the right.
pub fn divide_segment_n2_instance_body<S: Src>(_s: &mut S) {
    let (p, q, i): (Coord<f64>, Coord<f64>, Coord<f64>) = (Coord { x: 0.0, y: 5.0 }, Coord { x: 5.0, y: 0.0 }, Coord { x: 0.0, y: 3.0 });
    register_points(&[w(p), w(q), w(i), w(Coord { x: i.x.nextafter(true), y: i.y })]);
    let (l, r) = seg(1, p, q, true);
    let mut queue: BinaryHeap<Rc<SweepEvent<f64>>> = BinaryHeap::new();
    divide_segment(&l, i, &mut queue);
    let nr = l.get_other_event().unwrap();
    assert!(nr.point == i, "C16 (N2): division exactly at the given point");
    std::mem::forget((nr, l, r, queue));
}

/// Known finding N2' (C13 "non-zero length"), concrete instance: the right end lies exactly one ulp to the right of the left
/// end; dividing (0,5)-(ulp,3) at (0,3) bumps the division point onto the right end, so the right piece has zero length.
pub fn divide_segment_n2prime_instance_body<S: Src>(_s: &mut S) {
    let ulp: f64 = (0.0f64).nextafter(true);
    let (p, q, i): (Coord<f64>, Coord<f64>, Coord<f64>) = (Coord { x: 0.0, y: 5.0 }, Coord { x: ulp, y: 3.0 }, Coord { x: 0.0, y: 3.0 });
    register_points(&[w(p), w(q), w(i)]);
    let (l, r) = seg(1, p, q, true);
    let mut queue: BinaryHeap<Rc<SweepEvent<f64>>> = BinaryHeap::new();
    divide_segment(&l, i, &mut queue);
    let nl = r.get_other_event().unwrap();
    assert!(nl.point != r.point, "C13 (N2'): the right piece of a division has non-zero length");
    std::mem::forget((nl, l, r, queue));
}

/// C10 instance of the same corner in f32 (the clause of U-I3 "bumped by exactly one ulp", on concrete single-precision
/// input): dividing (1,10)-(5,0) at (1,7) must place both new events at (nextafter(1), 7) -- one f32 ulp, not an f64 ulp.
pub fn divide_segment_bump_f32_body<S: Src>(_s: &mut S) {
    let (p, q, i): (Coord<f32>, Coord<f32>, Coord<f32>) = (Coord { x: 1.0, y: 10.0 }, Coord { x: 5.0, y: 0.0 }, Coord { x: 1.0, y: 7.0 });
    let bump = Coord { x: i.x.nextafter(true), y: i.y };
    register_points(&[w(p), w(q), w(i), w(bump)]);
    let (l, r) = seg(1, p, q, true);
    let mut queue: BinaryHeap<Rc<SweepEvent<f32>>> = BinaryHeap::new();
    divide_segment(&l, i, &mut queue);
    let nr = l.get_other_event().unwrap();
    let nl = r.get_other_event().unwrap();
    assert!(bump.x > i.x, "one ulp up is a different f32");
    assert!(nr.point == bump && nl.point == bump, "C10/C16 (N2): in f32 the division point is bumped by exactly one f32 ulp");
    std::mem::forget((nr, nl, l, r, queue));
}

/// Contract stub of `divide_segment` for callers' harnesses (U-I4): checks the precondition, produces a post-state
/// that satisfies the postcondition proved in `divide_segment_contract_*`.
pub static mut DIV_N: usize = 0;
pub static mut DIV_WHO: [*const (); 3] = [std::ptr::null(); 3]; // identity of the left event handed to divide_segment
pub static mut DIV_AT: [(f64, f64); 3] = [(0.0, 0.0); 3]; // the division point handed to it
pub static mut DIV_NEW_L: [*const (); 3] = [std::ptr::null(); 3]; // the new event that starts the right piece

#[cfg(kani)]
pub fn divide_segment_by_contract<F: Float + AnyF>(se_l: &Rc<SweepEvent<F>>, inter: Coord<F>, queue: &mut BinaryHeap<Rc<SweepEvent<F>>>) {
    unsafe {
        assert!(DIV_N < 3, "more than three divisions in one intersection step");
        DIV_WHO[DIV_N] = Rc::as_ptr(se_l) as *const ();
        DIV_AT[DIV_N] = (inter.x.into(), inter.y.into());
    }
    let se_r = se_l.get_other_event().unwrap();
    assert!(se_l.is_left() && inter != se_l.point && inter != se_r.point && inter.x >= se_l.point.x, "precondition of divide_segment (U-I3)");
    let bumped = inter.x == se_l.point.x && inter.y < se_l.point.y;
    let at = if bumped { Coord { x: inter.x.nextafter(true), y: inter.y } } else { inter };
    kani::assume(!(bumped && at == se_r.point));
    let r = SweepEvent::new_rc(se_l.contour_id, at, false, Rc::downgrade(se_l), se_l.is_subject, true);
    let l = SweepEvent::new_rc(se_l.contour_id, at, true, Rc::downgrade(&se_r), se_l.is_subject, true);
    let el = Ev { p: w(at), q: w(se_r.point), left: true, subject: l.is_subject, contour: l.contour_id };
    let er = Ev { p: w(se_r.point), q: w(at), left: false, subject: l.is_subject, contour: l.contour_id };
    if !ev_before(el, er) {
        se_r.set_left(true);
        l.set_left(false);
    }
    se_l.set_other_event(&r);
    se_r.set_other_event(&l);
    unsafe {
        DIV_NEW_L[DIV_N] = Rc::as_ptr(&l) as *const ();
        DIV_N += 1;
    }
    queue.push(l);
    queue.push(r);
    std::mem::forget(se_r);
}

#[cfg(kani)]
mod proofs {
    use super::super::order::orient2d_contract;
    use super::*;

    #[kani::proof]
    #[kani::stub(robust::orient2d, orient2d_contract)]
    #[kani::stub(std::collections::BinaryHeap::push, heap_push_recorder)]
    #[kani::unwind(8)]
    fn divide_segment_contract_f64() {
        divide_segment_contract_body::<f64, _>(&mut KaniSrc);
    }

    #[kani::proof]
    #[kani::stub(robust::orient2d, orient2d_contract)]
    #[kani::stub(std::collections::BinaryHeap::push, heap_push_recorder)]
    #[kani::unwind(8)]
    fn divide_segment_contract_f32() {
        divide_segment_contract_body::<f32, _>(&mut KaniSrc);
    }

    #[kani::proof]
    #[kani::stub(robust::orient2d, orient2d_contract)]
    #[kani::stub(std::collections::BinaryHeap::push, heap_push_recorder)]
    #[kani::unwind(8)]
    fn divide_segment_instance_interior() {
        divide_segment_instance_body(&mut KaniSrc, 0);
    }

    #[kani::proof]
    #[kani::stub(robust::orient2d, orient2d_contract)]
    #[kani::stub(std::collections::BinaryHeap::push, heap_push_recorder)]
    #[kani::unwind(8)]
    fn divide_segment_instance_swap() {
        divide_segment_instance_body(&mut KaniSrc, 1);
    }

    #[kani::proof]
    #[kani::stub(robust::orient2d, orient2d_contract)]
    #[kani::stub(std::collections::BinaryHeap::push, heap_push_recorder)]
    #[kani::unwind(8)]
    fn divide_segment_n2_instance() {
        divide_segment_n2_instance_body(&mut KaniSrc);
    }

    #[kani::proof]
    #[kani::stub(robust::orient2d, orient2d_contract)]
    #[kani::stub(std::collections::BinaryHeap::push, heap_push_recorder)]
    #[kani::unwind(8)]
    fn divide_segment_n2prime_instance() {
        divide_segment_n2prime_instance_body(&mut KaniSrc);
    }

    #[kani::proof]
    #[kani::stub(robust::orient2d, orient2d_contract)]
    #[kani::stub(std::collections::BinaryHeap::push, heap_push_recorder)]
    #[kani::unwind(8)]
    fn divide_segment_bump_f32() {
        divide_segment_bump_f32_body(&mut KaniSrc);
    }
}

// ---- U-I4: possible_intersection -----------------------------------------------------------------------------------------
// `intersection` is replaced by its contract: any classification such that
//   * reported points lie inside the bounding boxes of both segments (U-I1, proved for all floats), and
//   * an Overlap is reported only for collinear segments whose common part has positive length (segint unit, over reals).
static mut PI_KIND: u8 = 0;
static mut PI_PT: (f64, f64) = (0.0, 0.0);

#[cfg(kani)]
pub fn intersection_contract<F: Float>(a1: Coord<F>, a2: Coord<F>, b1: Coord<F>, b2: Coord<F>) -> LineIntersection<F> {
    unsafe {
        match PI_KIND {
            0 => LineIntersection::None,
            1 => LineIntersection::Point(Coord { x: F::from(PI_PT.0).unwrap(), y: F::from(PI_PT.1).unwrap() }),
            _ => LineIntersection::Overlap(a1, a1), // the overlap end points are not consulted by possible_intersection
        }
    }
}

/// the k-th recorded call of divide_segment was (segment with left event `l`, point `at`)
fn div_call<F: AnyF>(k: usize, l: &Rc<SweepEvent<F>>, at: Coord<F>) -> bool {
    unsafe { k < DIV_N && DIV_WHO[k] == Rc::as_ptr(l) as *const () && DIV_AT[k] == (at.x.into(), at.y.into()) }
}

fn div_calls() -> usize {
    unsafe { DIV_N }
}

/// `kind` (concrete per harness): what the intersection routine answers -- 0 None, 1 Point, 2 Overlap
pub fn possible_intersection_contract_body<F: AnyF, S: Src>(s: &mut S, kind: u8) {
    let (p1, q1, p2, q2) = (pt::<F, S>(s), pt::<F, S>(s), pt::<F, S>(s), pt::<F, S>(s));
    possible_intersection_core::<F, S>(s, kind, p1, q1, p2, q2);
}

/// Overlap arm on a grid (bounded in coordinates, exhaustive in what the arm depends on): four collinear endpoints at
/// symbolic positions 0..4 along one of four directions (horizontal, vertical, diagonal, anti-diagonal), every order type
/// of the two left ends and of the two right ends with an overlap of positive length.
pub fn possible_intersection_overlap_grid_body<F: AnyF, S: Src>(s: &mut S) {
    let dir = s.u8() % 4;
    let (dx, dy): (f64, f64) = match dir {
        0 => (1.0, 0.0),
        1 => (0.0, 1.0),
        2 => (1.0, 1.0),
        _ => (1.0, -1.0),
    };
    let mut t = [0u8; 4];
    let mut i = 0;
    while i < 4 {
        t[i] = s.u8();
        s.assume(t[i] < 4);
        i += 1;
    }
    s.assume(t[0] < t[1] && t[2] < t[3]);
    let lo = if t[0] > t[2] { t[0] } else { t[2] };
    let hi = if t[1] < t[3] { t[1] } else { t[3] };
    s.assume(lo < hi);
    let at = |k: u8| Coord { x: F::from(1.0 + dx * k as f64).unwrap(), y: F::from(5.0 + dy * k as f64).unwrap() };
    possible_intersection_core::<F, S>(s, 2, at(t[0]), at(t[1]), at(t[2]), at(t[3]));
}

fn possible_intersection_core<F: AnyF, S: Src>(s: &mut S, kind: u8, p1: Coord<F>, q1: Coord<F>, p2: Coord<F>, q2: Coord<F>) {
    let (s1, s2) = (s.bool(), s.bool());
    let ip = pt::<F, S>(s);
    let bump = Coord { x: ip.x.nextafter(true), y: ip.y };
    s.assume(bump.x.is_finite());
    register_points(&[w(p1), w(q1), w(p2), w(q2), w(ip), w(bump)]);
    s.assume(pt_lt(w(p1), w(q1)) && pt_lt(w(p2), w(q2)));
    let (se1, o1) = seg(1, p1, q1, s1);
    let (se2, o2) = seg(2, p2, q2, s2);
    se1.set_in_out(s.bool(), s.bool());
    se2.set_in_out(s.bool(), s.bool());
    // contract of `intersection`
    if kind == 1 {
        s.assume(in_box(ip, p1, q1) && in_box(ip, p2, q2));
    }
    if kind == 2 {
        // collinear, common part of positive length
        s.assume(orient(w(p1), w(q1), w(p2)) == 0 && orient(w(p1), w(q1), w(q2)) == 0);
        let lo = if pt_lt(w(p1), w(p2)) { w(p2) } else { w(p1) };
        let hi = if pt_lt(w(q1), w(q2)) { w(q1) } else { w(q2) };
        s.assume(pt_lt(lo, hi));
    }
    unsafe {
        PI_KIND = kind;
        PI_PT = (ip.x.into(), ip.y.into());
    }
    vcover!(kind != 1 || (ip != p1 && ip != q1 && ip != p2 && ip != q2 && p1 != p2 && q1 != q2), "crossing-both-divided");
    vcover!(kind != 1 || (ip == p2 && p1 != p2 && q1 != q2), "t-junction");
    vcover!(kind != 2 || (s1 != s2 && p1 == p2 && q1 != q2), "overlap-left-coincide");
    vcover!(kind != 2 || (s1 != s2 && p1 != p2 && q1 != q2), "overlap-general");

    let mut queue: BinaryHeap<Rc<SweepEvent<F>>> = BinaryHeap::new();
    let n0 = pushed_count();
    let code = possible_intersection(&se1, &se2, &mut queue);
    let pushed = take_pushed::<F>(n0, queue);

    let et_unchanged = se1.get_edge_type() == EdgeType::Normal && se2.get_edge_type() == EdgeType::Normal;
    // every division is done by divide_segment (U-I3: two pushes, linked proper pieces meeting in the point); nothing else pushes
    assert!(pushed.len() == 2 * div_calls(), "C13: events enter the queue only through divisions, two per division");
    if kind == 0 {
        assert!(code == 0 && div_calls() == 0 && et_unchanged, "C16: no intersection => nothing happens");
    } else if kind == 1 {
        if p1 == p2 || q1 == q2 {
            assert!(code == 0 && div_calls() == 0 && et_unchanged, "C16: segments that share an endpoint and meet in one point are left untouched");
        } else {
            assert!(code == 1 && et_unchanged, "C16: a point intersection is reported with code 1");
            let d1 = ip != p1 && ip != q1;
            let d2 = ip != p2 && ip != q2;
            assert!(div_calls() == (d1 as usize) + (d2 as usize), "C16: exactly the segments that contain the point in their interior are split");
            // (in which order the two are split is not part of the property)
            if d1 {
                assert!(div_call(0, &se1, ip) || div_call(1, &se1, ip), "C16: the first segment is split at the reported point");
            }
            if d2 {
                assert!(div_call(0, &se2, ip) || div_call(1, &se2, ip), "C16: the second segment is split at the same reported point");
            }
        }
    } else if s1 == s2 {
        assert!(code == 0 && div_calls() == 0 && et_unchanged, "C16: overlapping edges of one operand are left alone");
    } else {
        // collinear overlap of different operands: split at the overlap's ends (existing endpoints), type the coincident pair
        let left_coincide = p1 == p2;
        let right_coincide = q1 == q2;
        if left_coincide {
            assert!(code == 2, "C16: coinciding left ends => code 2 (fields are recomputed by the caller)");
            assert!(se2.get_edge_type() == EdgeType::NonContributing, "C14/C16: the upper twin is non-contributing");
            assert!(se1.get_edge_type() == if se1.is_in_out() == se2.is_in_out() { EdgeType::SameTransition } else { EdgeType::DifferentTransition }, "C14/C16: the lower twin carries the combined transition type");
            if right_coincide {
                assert!(div_calls() == 0, "C16: identical segments are not split");
            } else if pt_lt(w(q1), w(q2)) {
                assert!(div_calls() == 1 && div_call(0, &se2, q1), "C16: the longer twin is split at the shorter one's right end");
            } else {
                assert!(div_calls() == 1 && div_call(0, &se1, q2), "C16: the longer twin is split at the shorter one's right end");
            }
        } else {
            assert!(code == 3 && et_unchanged, "C16: overlap with distinct left ends => code 3, typing happens when the coincident pieces are met later");
            // the segment that starts first is split where the other starts; the one that ends last where the other ends
            let first_is_1 = pt_lt(w(p1), w(p2));
            let (fl, fq, sl, sq) = if first_is_1 { (&se1, q1, &se2, q2) } else { (&se2, q2, &se1, q1) };
            if right_coincide {
                assert!(div_calls() == 1 && div_call(0, fl, sl.point), "C16: the earlier segment is split where the later one starts");
            } else {
                assert!(div_calls() == 2 && div_call(0, fl, sl.point), "C16: first division: the earlier segment, where the later one starts");
                if pt_lt(w(fq), w(sq)) {
                    // partial overlap: the later segment is split where the earlier one ends
                    assert!(div_call(1, sl, fq), "C16: partial overlap: the later segment is split where the earlier one ends");
                } else {
                    // containment: the remainder of the containing segment is split where the contained one ends
                    unsafe {
                        assert!(DIV_WHO[1] == DIV_NEW_L[0] && DIV_AT[1] == (sq.x.into(), sq.y.into()),
                            "C16: containment: the remainder of the containing segment is split where the contained one ends");
                    }
                }
            }
        }
    }
    std::mem::forget((pushed, se1, o1, se2, o2));
}

#[cfg(kani)]
mod proofs_pi {
    use super::super::order::orient2d_contract;
    use super::*;

    macro_rules! pi_harness {
        ($name:ident, $f:ty, $kind:expr) => {
            #[kani::proof]
            #[kani::stub(robust::orient2d, orient2d_contract)]
            #[kani::stub(std::collections::BinaryHeap::push, heap_push_recorder)]
            #[kani::stub(super::super::super::segment_intersection::intersection, intersection_contract)]
            #[kani::stub(super::super::super::divide_segment::divide_segment, divide_segment_by_contract)]
            #[kani::unwind(8)]
            fn $name() {
                possible_intersection_contract_body::<$f, _>(&mut KaniSrc, $kind);
            }
        };
    }
    // the Overlap answer (kind 2, and the grid variant) is specified in the body above but its harness exhausts CBMC's
    // memory (> 60 GB); that arm is covered by the native bounded check `overlap_arm_exhaustive` instead
    pi_harness!(possible_intersection_none_f64, f64, 0);
    pi_harness!(possible_intersection_point_f64, f64, 1);
    pi_harness!(possible_intersection_point_f32, f32, 1);
}
