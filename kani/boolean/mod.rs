//! Contract harnesses for the `boolean` module (injected into a scratch copy of /repo by tools/kx.py
//! as `lib/src/boolean/verif_k/`; never part of /repo).
//!
//! Every harness has the shape  assume(pre); cover(non-vacuity); call the real function; assert(post).
//! Inputs come from a `Src`: `kani::any()` under `cfg(kani)`, a recorded counterexample under
//! `cfg(verif_replay)` -- the same harness body then re-executes natively against the real code
//! (and the real `robust::orient2d`).
#![allow(dead_code, unused_imports, unused_variables, unused_mut)]

/// a reachable interesting case (non-vacuity check): every one must be reported SATISFIED
macro_rules! vcover {
    ($c:expr, $id:expr) => {
        #[cfg(kani)]
        kani::cover!($c, $id);
    };
}

pub mod src;
pub mod fields;
pub mod order;
pub mod intersect;
pub mod divide;
pub mod front;
pub mod contour;
pub mod queue;
pub mod widen;
pub mod sweep;

#[cfg(verif_replay)]
#[test]
fn replay_entry() {
    let (name, mut r) = src::ReplaySrc::from_env();
    let found = dispatch(&name, &mut r);
    if !found {
        // harnesses that replace callees by recorder/contract stubs have no native counterpart
        println!("REPLAY-NOT-AVAILABLE {}", name);
        std::process::exit(4);
    }
    println!("REPLAY-PASSED {}", name);
}

#[cfg(verif_replay)]
fn dispatch(name: &str, s: &mut src::ReplaySrc) -> bool {
    match name {
        "fields_select" => fields::fields_select_body(s),
        "fields_prev_in_result" => fields::fields_prev_in_result_body(s),
        "member_consistency" => fields::member_consistency_body(s),
        "endpoint_reuse_f32" => intersect::endpoint_reuse_body(s),
        "intersection_in_boxes_f64" => intersect::intersection_in_boxes_body::<f64, _>(s),
        "intersection_in_boxes_f32" => intersect::intersection_in_boxes_body::<f32, _>(s),
        "possible_intersection_none_f64" => divide::possible_intersection_contract_body::<f64, _>(s, 0),
        "possible_intersection_point_f64" => divide::possible_intersection_contract_body::<f64, _>(s, 1),
        "possible_intersection_point_f32" => divide::possible_intersection_contract_body::<f32, _>(s, 1),
        "nextafter_successor_f32" => widen::nextafter_successor_f32_body(s),
        "nextafter_successor_f64" => widen::nextafter_successor_f64_body(s),
        "divide_segment_bump_f32" => divide::divide_segment_bump_f32_body(s),
        "divide_segment_n2prime_instance" => divide::divide_segment_n2prime_instance_body(s),
        "divide_segment_n2_instance" => divide::divide_segment_n2_instance_body(s),
        "divide_segment_instance_interior" => divide::divide_segment_instance_body(s, 0),
        "divide_segment_instance_swap" => divide::divide_segment_instance_body(s, 1),
        "divide_segment_contract_f64" => divide::divide_segment_contract_body::<f64, _>(s),
        "divide_segment_contract_f32" => divide::divide_segment_contract_body::<f32, _>(s),
        "trivial_ysep_difference_f64" => queue::trivial_result_body::<f64, _>(s, 3, 1),
        "trivial_xsep_difference_f64" => queue::trivial_result_body::<f64, _>(s, 2, 1),
        "trivial_xsep_union_f64" => queue::trivial_result_body::<f64, _>(s, 2, 2),
        "trivial_ysep_union_f64" => queue::trivial_result_body::<f64, _>(s, 3, 2),
        "contour_parent" => contour::contour_parent_body(s),
        "cmp_matches_spec_f64" => order::cmp_matches_spec_body::<f64, _>(s),
        "cmp_matches_spec_f32" => order::cmp_matches_spec_body::<f32, _>(s),
        "compare_segments_matches_spec_f64" => order::compare_segments_matches_spec_body::<f64, _>(s),
        "compare_segments_matches_spec_f32" => order::compare_segments_matches_spec_body::<f32, _>(s),
        _ => return false,
    }
    true
}

/// Bounded twin of the Verus `segint` unit (native): every pair of non-degenerate segments with integer coordinates in
/// 0..4, the real `intersection` in f64 against exact rational arithmetic (classification exact, location within 1e-12).
/// Only used to look for a concrete failing input after a Verus obligation failed; never counted as proof.
#[cfg(verif_replay)]
#[test]
fn twin_segint() {
    use super::segment_intersection::{intersection, LineIntersection};
    use geo_types::Coord;
    const N: i64 = 4;
    let c = |x: i64, y: i64| Coord { x: x as f64, y: y as f64 };
    let close = |p: Coord<f64>, nx: i64, ny: i64, d: i64| (p.x - nx as f64 / d as f64).abs() < 1e-12 && (p.y - ny as f64 / d as f64).abs() < 1e-12;
    let mut count = 0u64;
    let report = |msg: String| {
        println!("TWIN-FAIL {}", msg);
        if let Ok(p) = std::env::var("VERIF_TWIN_OUT") {
            let _ = std::fs::write(p, format!("bounded twin of the Verus segint unit (real `intersection`, f64, vs exact rational arithmetic)\n{}\n", msg));
        }
    };
    for code in 0..(N as u64).pow(8) {
        let mut k = code;
        let mut v = [0i64; 8];
        for i in 0..8 {
            v[i] = (k % N as u64) as i64;
            k /= N as u64;
        }
        let (a1, a2, b1, b2) = ((v[0], v[1]), (v[2], v[3]), (v[4], v[5]), (v[6], v[7]));
        if a1 == a2 || b1 == b2 {
            continue;
        }
        count += 1;
        let (ux, uy, wx, wy) = (a2.0 - a1.0, a2.1 - a1.1, b2.0 - b1.0, b2.1 - b1.1);
        let (ex, ey) = (b1.0 - a1.0, b1.1 - a1.1);
        let d = ux * wy - uy * wx;
        // exact answer: 0 none, 1 point (nx/den, ny/den), 2 overlap (two points over den)
        let mut kind = 0;
        let (mut p1, mut p2, mut den) = ((0i64, 0i64), (0i64, 0i64), 1i64);
        if d != 0 {
            let (sn, tn) = (ex * wy - ey * wx, ex * uy - ey * ux);
            let (sn, tn, dd) = if d < 0 { (-sn, -tn, -d) } else { (sn, tn, d) };
            if 0 <= sn && sn <= dd && 0 <= tn && tn <= dd {
                kind = 1;
                den = dd;
                p1 = (a1.0 * dd + sn * ux, a1.1 * dd + sn * uy);
            }
        } else if ex * uy - ey * ux == 0 {
            let l = ux * ux + uy * uy;
            let sa = ux * ex + uy * ey;
            let sb = sa + ux * wx + uy * wy;
            let (lo, hi) = (sa.min(sb).max(0), sa.max(sb).min(l));
            if lo == hi {
                kind = 1;
                den = l;
                p1 = (a1.0 * l + lo * ux, a1.1 * l + lo * uy);
            } else if lo < hi {
                kind = 2;
                den = l;
                p1 = (a1.0 * l + lo * ux, a1.1 * l + lo * uy);
                p2 = (a1.0 * l + hi * ux, a1.1 * l + hi * uy);
            }
        }
        let r = intersection(c(a1.0, a1.1), c(a2.0, a2.1), c(b1.0, b1.1), c(b2.0, b2.1));
        let ok = match r {
            LineIntersection::None => kind == 0,
            LineIntersection::Point(p) => kind == 1 && close(p, p1.0, p1.1, den),
            LineIntersection::Overlap(p, q) => kind == 2 && close(p, p1.0, p1.1, den) && close(q, p2.0, p2.1, den),
        };
        if !ok {
            report(format!("segments {:?}-{:?} and {:?}-{:?}: intersection() = {:?}, exact answer kind {} at {:?}/{} {:?}/{}", a1, a2, b1, b2, r, kind, p1, den, p2, den));
            return;
        }
    }
    println!("TWIN-PASS segint: {} segment pairs on the {}x{} grid", count, N, N);
}

/// U-I4 overlap arm, bounded native stand-in (the symbolic harness for this arm exhausts CBMC's memory: eight
/// reference-counted tuple entries whose drop order depends on symbolic comparisons).  The arm's behaviour depends only on
/// the order type of the four collinear endpoints and on the operand / in-out flags, so this enumerates: 4 directions
/// (horizontal, vertical, diagonal, anti-diagonal) x all positions 0..6 of the four ends with an overlap of positive length
/// x operand flags x in-out flags, runs the REAL possible_intersection (real intersection, real divide_segment, real
/// heap) and compares the resulting sub-segments, edge types and return code with the statement of C16.
#[cfg(verif_replay)]
#[test]
fn overlap_arm_exhaustive() {
    use super::possible_intersection::possible_intersection;
    use super::sweep_event::{EdgeType, SweepEvent};
    use geo_types::Coord;
    use std::collections::BinaryHeap;
    use std::rc::{Rc, Weak};
    type Ev = Rc<SweepEvent<f64>>;
    let report = |msg: String| {
        println!("TWIN-FAIL {}", msg);
        if let Ok(p) = std::env::var("VERIF_TWIN_OUT") {
            let _ = std::fs::write(p, format!("bounded native check of the overlap arm of the real possible_intersection\n{}\n", msg));
        }
    };
    let seg = |id: u32, p: Coord<f64>, q: Coord<f64>, subj: bool| -> (Ev, Ev) {
        let r = SweepEvent::new_rc(id, q, false, Weak::new(), subj, true);
        let l = SweepEvent::new_rc(id, p, true, Rc::downgrade(&r), subj, true);
        r.set_other_event(&l);
        (l, r)
    };
    let dirs: [(f64, f64); 4] = [(1.0, 0.0), (0.0, 1.0), (1.0, 1.0), (1.0, -1.0)];
    let mut cases = 0u64;
    for (di, &(dx, dy)) in dirs.iter().enumerate() {
        let at = |k: i32| Coord { x: 1.0 + dx * k as f64, y: 7.0 + dy * k as f64 };
        for t0 in 0..6 {
            for t1 in (t0 + 1)..6 {
                for t2 in 0..6 {
                    for t3 in (t2 + 1)..6 {
                        if t0.max(t2) >= t1.min(t3) {
                            continue; // no overlap of positive length
                        }
                        for flags in 0..16u8 {
                            let (s1, s2) = (flags & 1 != 0, flags & 2 != 0);
                            let (io1, io2) = (flags & 4 != 0, flags & 8 != 0);
                            cases += 1;
                            let (se1, o1) = seg(1, at(t0), at(t1), s1);
                            let (se2, o2) = seg(2, at(t2), at(t3), s2);
                            se1.set_in_out(io1, false);
                            se2.set_in_out(io2, false);
                            let mut queue: BinaryHeap<Ev> = BinaryHeap::new();
                            let code = possible_intersection(&se1, &se2, &mut queue);
                            let ctx = format!("direction {:?}, first segment {}..{} (subject {}), second {}..{} (subject {})", dirs[di], t0, t1, s1, t2, t3, s2);
                            // all events: the four originals + what was pushed
                            let mut all: Vec<Ev> = vec![se1.clone(), o1.clone(), se2.clone(), o2.clone()];
                            let pushed = queue.into_vec();
                            all.extend(pushed.iter().cloned());
                            // pieces: every left event with its partner; must be mutually linked, left first, non-zero length
                            let mut pieces: Vec<(i32, i32, bool)> = Vec::new();
                            let pos = |c: Coord<f64>| -> i32 { if dx != 0.0 { ((c.x - 1.0) / dx).round() as i32 } else { ((c.y - 7.0) / dy).round() as i32 } };
                            for e in &all {
                                let o = match e.get_other_event() {
                                    Some(o) => o,
                                    None => { report(format!("{}: event without partner", ctx)); return; }
                                };
                                if !Rc::ptr_eq(&o.get_other_event().unwrap(), e) {
                                    report(format!("{}: pieces not mutually linked", ctx));
                                    return;
                                }
                                if e.is_left() {
                                    if o.is_left() || !(e.is_before(&o)) || e.point == o.point {
                                        report(format!("{}: piece {:?}-{:?} is not a proper left/right pair", ctx, e.point, o.point));
                                        return;
                                    }
                                    if e.point != at(pos(e.point)) || o.point != at(pos(o.point)) {
                                        report(format!("{}: division at a point that is not an existing endpoint: {:?}-{:?}", ctx, e.point, o.point));
                                        return;
                                    }
                                    pieces.push((pos(e.point), pos(o.point), e.is_subject));
                                }
                            }
                            pieces.sort();
                            // expectation from the statement
                            let mut want: Vec<(i32, i32, bool)> = Vec::new();
                            let cut = |a: (i32, i32), b: (i32, i32), subj: bool, want: &mut Vec<(i32, i32, bool)>| {
                                let mut c = vec![a.0];
                                for x in [b.0, b.1] {
                                    if a.0 < x && x < a.1 && !c.contains(&x) { c.push(x); }
                                }
                                c.push(a.1);
                                c.sort();
                                for w in c.windows(2) { want.push((w[0], w[1], subj)); }
                            };
                            if s1 == s2 {
                                want.push((t0, t1, s1));
                                want.push((t2, t3, s2));
                            } else {
                                cut((t0, t1), (t2, t3), s1, &mut want);
                                cut((t2, t3), (t0, t1), s2, &mut want);
                            }
                            want.sort();
                            if pieces != want {
                                report(format!("{}: sub-segments after the step {:?}, expected {:?}", ctx, pieces, want));
                                return;
                            }
                            if pushed.len() != 2 * (want.len() - 2) {
                                report(format!("{}: {} events pushed for {} divisions", ctx, pushed.len(), want.len() - 2));
                                return;
                            }
                            let want_code = if s1 == s2 { 0 } else if t0 == t2 { 2 } else { 3 };
                            if code != want_code {
                                report(format!("{}: return code {}, expected {}", ctx, code, want_code));
                                return;
                            }
                            let (e1, e2) = (se1.get_edge_type(), se2.get_edge_type());
                            let typed_ok = if s1 != s2 && t0 == t2 {
                                e2 == EdgeType::NonContributing && e1 == if io1 == io2 { EdgeType::SameTransition } else { EdgeType::DifferentTransition }
                            } else {
                                e1 == EdgeType::Normal && e2 == EdgeType::Normal
                            };
                            if !typed_ok {
                                report(format!("{}: edge types {:?} / {:?}", ctx, e1, e2));
                                return;
                            }
                        }
                    }
                }
            }
        }
    }
    println!("TWIN-PASS overlap_arm_exhaustive: {} configurations", cases);
}
