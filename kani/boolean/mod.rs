//! Contract harnesses for the `boolean` module (injected into a scratch copy of /repo by tools/kx.py
//! as `lib/src/boolean/verif_k/`; never part of /repo).
//!
//! Every harness has the shape  assume(pre); cover(non-vacuity); call the real function; assert(post).
//! Inputs come from a `Src`: `kani::any()` under `cfg(kani)`, a recorded counterexample under
//! `cfg(verif_replay)` -- the same harness body then re-executes natively against the real code
//! (and the real `robust::orient2d`).
#![allow(dead_code, unused_imports, unused_variables, unused_mut)]

/// a reachable interesting case (non-vacuity check): every one must be reported SATISFIED
macro_rules! vcover {
    ($c:expr, $id:expr) => {
        #[cfg(kani)]
        kani::cover!($c, $id);
    };
}

pub mod src;
pub mod fields;
pub mod order;
pub mod intersect;
pub mod divide;
pub mod front;
pub mod contour;
pub mod queue;
pub mod widen;

#[cfg(verif_replay)]
#[test]
fn replay_entry() {
    let (name, mut r) = src::ReplaySrc::from_env();
    let found = dispatch(&name, &mut r);
    assert!(found, "unknown harness {}", name);
    println!("REPLAY-PASSED {}", name);
}

#[cfg(verif_replay)]
fn dispatch(name: &str, s: &mut src::ReplaySrc) -> bool {
    match name {
        "fields_select" => fields::fields_select_body(s),
        "fields_prev_in_result" => fields::fields_prev_in_result_body(s),
        "member_consistency" => fields::member_consistency_body(s),
        "endpoint_reuse_f32" => intersect::endpoint_reuse_body(s),
        "intersection_in_boxes_f64" => intersect::intersection_in_boxes_body::<f64, _>(s),
        "intersection_in_boxes_f32" => intersect::intersection_in_boxes_body::<f32, _>(s),
        "possible_intersection_overlap_grid_f64" => divide::possible_intersection_overlap_grid_body::<f64, _>(s),
        "possible_intersection_none_f64" => divide::possible_intersection_contract_body::<f64, _>(s, 0),
        "possible_intersection_point_f64" => divide::possible_intersection_contract_body::<f64, _>(s, 1),
        "possible_intersection_overlap_f64" => divide::possible_intersection_contract_body::<f64, _>(s, 2),
        "possible_intersection_point_f32" => divide::possible_intersection_contract_body::<f32, _>(s, 1),
        "possible_intersection_overlap_f32" => divide::possible_intersection_contract_body::<f32, _>(s, 2),
        "divide_segment_n2_instance" => divide::divide_segment_n2_instance_body(s),
        "divide_segment_contract_f64" => divide::divide_segment_contract_body::<f64, _>(s),
        "divide_segment_contract_f32" => divide::divide_segment_contract_body::<f32, _>(s),
        "trivial_ysep_difference_f64" => queue::trivial_result_body::<f64, _>(s, 3, 1),
        "trivial_xsep_difference_f64" => queue::trivial_result_body::<f64, _>(s, 2, 1),
        "trivial_xsep_union_f64" => queue::trivial_result_body::<f64, _>(s, 2, 2),
        "trivial_ysep_union_f64" => queue::trivial_result_body::<f64, _>(s, 3, 2),
        "contour_parent" => contour::contour_parent_body(s),
        "cmp_matches_spec_f64" => order::cmp_matches_spec_body::<f64, _>(s),
        "cmp_matches_spec_f32" => order::cmp_matches_spec_body::<f32, _>(s),
        "compare_segments_matches_spec_f64" => order::compare_segments_matches_spec_body::<f64, _>(s),
        "compare_segments_matches_spec_f32" => order::compare_segments_matches_spec_body::<f32, _>(s),
        _ => return false,
    }
    true
}

/// Bounded twin of the Verus `segint` unit (native): every pair of non-degenerate segments with integer coordinates in
/// 0..4, the real `intersection` in f64 against exact rational arithmetic (classification exact, location within 1e-12).
/// Only used to look for a concrete failing input after a Verus obligation failed; never counted as proof.
#[cfg(verif_replay)]
#[test]
fn twin_segint() {
    use super::segment_intersection::{intersection, LineIntersection};
    use geo_types::Coord;
    const N: i64 = 4;
    let c = |x: i64, y: i64| Coord { x: x as f64, y: y as f64 };
    let close = |p: Coord<f64>, nx: i64, ny: i64, d: i64| (p.x - nx as f64 / d as f64).abs() < 1e-12 && (p.y - ny as f64 / d as f64).abs() < 1e-12;
    let mut count = 0u64;
    let report = |msg: String| {
        println!("TWIN-FAIL {}", msg);
        if let Ok(p) = std::env::var("VERIF_TWIN_OUT") {
            let _ = std::fs::write(p, format!("bounded twin of the Verus segint unit (real `intersection`, f64, vs exact rational arithmetic)\n{}\n", msg));
        }
    };
    for code in 0..(N as u64).pow(8) {
        let mut k = code;
        let mut v = [0i64; 8];
        for i in 0..8 {
            v[i] = (k % N as u64) as i64;
            k /= N as u64;
        }
        let (a1, a2, b1, b2) = ((v[0], v[1]), (v[2], v[3]), (v[4], v[5]), (v[6], v[7]));
        if a1 == a2 || b1 == b2 {
            continue;
        }
        count += 1;
        let (ux, uy, wx, wy) = (a2.0 - a1.0, a2.1 - a1.1, b2.0 - b1.0, b2.1 - b1.1);
        let (ex, ey) = (b1.0 - a1.0, b1.1 - a1.1);
        let d = ux * wy - uy * wx;
        // exact answer: 0 none, 1 point (nx/den, ny/den), 2 overlap (two points over den)
        let mut kind = 0;
        let (mut p1, mut p2, mut den) = ((0i64, 0i64), (0i64, 0i64), 1i64);
        if d != 0 {
            let (sn, tn) = (ex * wy - ey * wx, ex * uy - ey * ux);
            let (sn, tn, dd) = if d < 0 { (-sn, -tn, -d) } else { (sn, tn, d) };
            if 0 <= sn && sn <= dd && 0 <= tn && tn <= dd {
                kind = 1;
                den = dd;
                p1 = (a1.0 * dd + sn * ux, a1.1 * dd + sn * uy);
            }
        } else if ex * uy - ey * ux == 0 {
            let l = ux * ux + uy * uy;
            let sa = ux * ex + uy * ey;
            let sb = sa + ux * wx + uy * wy;
            let (lo, hi) = (sa.min(sb).max(0), sa.max(sb).min(l));
            if lo == hi {
                kind = 1;
                den = l;
                p1 = (a1.0 * l + lo * ux, a1.1 * l + lo * uy);
            } else if lo < hi {
                kind = 2;
                den = l;
                p1 = (a1.0 * l + lo * ux, a1.1 * l + lo * uy);
                p2 = (a1.0 * l + hi * ux, a1.1 * l + hi * uy);
            }
        }
        let r = intersection(c(a1.0, a1.1), c(a2.0, a2.1), c(b1.0, b1.1), c(b2.0, b2.1));
        let ok = match r {
            LineIntersection::None => kind == 0,
            LineIntersection::Point(p) => kind == 1 && close(p, p1.0, p1.1, den),
            LineIntersection::Overlap(p, q) => kind == 2 && close(p, p1.0, p1.1, den) && close(q, p2.0, p2.1, den),
        };
        if !ok {
            report(format!("segments {:?}-{:?} and {:?}-{:?}: intersection() = {:?}, exact answer kind {} at {:?}/{} {:?}/{}", a1, a2, b1, b2, r, kind, p1, den, p2, den));
            return;
        }
    }
    println!("TWIN-PASS segint: {} segment pairs on the {}x{} grid", count, N, N);
}
