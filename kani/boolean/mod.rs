//! Contract harnesses for the `boolean` module (injected into a scratch copy of /repo by tools/kx.py
//! as `lib/src/boolean/verif_k/`; never part of /repo).
//!
//! Every harness has the shape  assume(pre); cover(non-vacuity); call the real function; assert(post).
//! Inputs come from a `Src`: `kani::any()` under `cfg(kani)`, a recorded counterexample under
//! `cfg(verif_replay)` -- the same harness body then re-executes natively against the real code
//! (and the real `robust::orient2d`).
#![allow(dead_code, unused_imports, unused_variables, unused_mut)]

/// a reachable interesting case (non-vacuity check): every one must be reported SATISFIED
macro_rules! vcover {
    ($c:expr, $id:expr) => {
        #[cfg(kani)]
        kani::cover!($c, $id);
    };
}

pub mod src;
pub mod fields;
pub mod order;
pub mod intersect;
pub mod divide;
pub mod front;
pub mod contour;
pub mod queue;
pub mod widen;

#[cfg(verif_replay)]
#[test]
fn replay_entry() {
    let (name, mut r) = src::ReplaySrc::from_env();
    let found = dispatch(&name, &mut r);
    assert!(found, "unknown harness {}", name);
    println!("REPLAY-PASSED {}", name);
}

#[cfg(verif_replay)]
fn dispatch(name: &str, s: &mut src::ReplaySrc) -> bool {
    match name {
        "fields_select" => fields::fields_select_body(s),
        "fields_prev_in_result" => fields::fields_prev_in_result_body(s),
        "member_consistency" => fields::member_consistency_body(s),
        "intersection_in_boxes_f64" => intersect::intersection_in_boxes_body::<f64, _>(s),
        "intersection_in_boxes_f32" => intersect::intersection_in_boxes_body::<f32, _>(s),
        "possible_intersection_none_f64" => divide::possible_intersection_contract_body::<f64, _>(s, 0),
        "possible_intersection_point_f64" => divide::possible_intersection_contract_body::<f64, _>(s, 1),
        "possible_intersection_overlap_f64" => divide::possible_intersection_contract_body::<f64, _>(s, 2),
        "possible_intersection_point_f32" => divide::possible_intersection_contract_body::<f32, _>(s, 1),
        "possible_intersection_overlap_f32" => divide::possible_intersection_contract_body::<f32, _>(s, 2),
        "divide_segment_n2_instance" => divide::divide_segment_n2_instance_body(s),
        "divide_segment_contract_f64" => divide::divide_segment_contract_body::<f64, _>(s),
        "divide_segment_contract_f32" => divide::divide_segment_contract_body::<f32, _>(s),
        "trivial_result_f64" => queue::trivial_result_body::<f64, _>(s),
        "trivial_result_f32" => queue::trivial_result_body::<f32, _>(s),
        "contour_parent" => contour::contour_parent_body(s),
        "cmp_matches_spec_f64" => order::cmp_matches_spec_body::<f64, _>(s),
        "cmp_matches_spec_f32" => order::cmp_matches_spec_body::<f32, _>(s),
        "compare_segments_matches_spec_f64" => order::compare_segments_matches_spec_body::<f64, _>(s),
        "compare_segments_matches_spec_f32" => order::compare_segments_matches_spec_body::<f32, _>(s),
        _ => return false,
    }
    true
}
