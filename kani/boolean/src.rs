//! Input sources for harness bodies.
use super::super::helper::Float;

pub trait Src {
    fn bool(&mut self) -> bool;
    fn u8(&mut self) -> u8;
    fn u32(&mut self) -> u32;
    fn i32(&mut self) -> i32;
    fn f64(&mut self) -> f64;
    fn f32(&mut self) -> f32;
    /// precondition of the contract under proof
    fn assume(&mut self, c: bool);
}

/// floats the harnesses are instantiated with
pub trait AnyF: Float {
    fn any<S: Src>(s: &mut S) -> Self;
    const NAME: &'static str;
}
impl AnyF for f64 {
    fn any<S: Src>(s: &mut S) -> f64 {
        s.f64()
    }
    const NAME: &'static str = "f64";
}
impl AnyF for f32 {
    fn any<S: Src>(s: &mut S) -> f32 {
        s.f32()
    }
    const NAME: &'static str = "f32";
}

#[cfg(kani)]
pub struct KaniSrc;

#[cfg(kani)]
impl Src for KaniSrc {
    fn bool(&mut self) -> bool {
        kani::any()
    }
    fn u8(&mut self) -> u8 {
        kani::any()
    }
    fn u32(&mut self) -> u32 {
        kani::any()
    }
    fn i32(&mut self) -> i32 {
        kani::any()
    }
    fn f64(&mut self) -> f64 {
        kani::any()
    }
    fn f32(&mut self) -> f32 {
        kani::any()
    }
    fn assume(&mut self, c: bool) {
        kani::assume(c)
    }
}

/// Replays the byte vectors of a Kani concrete-playback counterexample, in the order the harness asked for them.
#[cfg(verif_replay)]
pub struct ReplaySrc {
    vals: Vec<Vec<u8>>,
    pos: usize,
}

#[cfg(verif_replay)]
impl ReplaySrc {
    /// file format: first line harness name, then one line per value: space separated decimal bytes
    pub fn from_env() -> (String, ReplaySrc) {
        let path = std::env::var("VERIF_REPLAY_FILE").expect("VERIF_REPLAY_FILE not set");
        let text = std::fs::read_to_string(&path).expect("cannot read replay file");
        let mut lines = text.lines().filter(|l| !l.trim_start().starts_with('#'));
        let name = lines.next().expect("empty replay file").trim().to_string();
        let vals = lines
            .filter(|l| !l.trim().is_empty())
            .map(|l| l.split_whitespace().map(|b| b.parse::<u8>().expect("bad byte")).collect())
            .collect();
        (name, ReplaySrc { vals, pos: 0 })
    }
    fn take(&mut self, n: usize) -> Vec<u8> {
        let v = self.vals.get(self.pos).cloned().unwrap_or_else(|| vec![0; n]);
        self.pos += 1;
        assert_eq!(v.len(), n, "replay value {} has {} bytes, harness wants {}", self.pos, v.len(), n);
        v
    }
}

#[cfg(verif_replay)]
impl Src for ReplaySrc {
    fn bool(&mut self) -> bool {
        self.take(1)[0] != 0
    }
    fn u8(&mut self) -> u8 {
        self.take(1)[0]
    }
    fn u32(&mut self) -> u32 {
        let v = self.take(4);
        u32::from_le_bytes([v[0], v[1], v[2], v[3]])
    }
    fn i32(&mut self) -> i32 {
        let v = self.take(4);
        i32::from_le_bytes([v[0], v[1], v[2], v[3]])
    }
    fn f64(&mut self) -> f64 {
        let v = self.take(8);
        f64::from_le_bytes([v[0], v[1], v[2], v[3], v[4], v[5], v[6], v[7]])
    }
    fn f32(&mut self) -> f32 {
        let v = self.take(4);
        f32::from_le_bytes([v[0], v[1], v[2], v[3]])
    }
    fn assume(&mut self, c: bool) {
        if !c {
            // the recorded input does not satisfy the precondition on the real code: not a counterexample
            println!("REPLAY-PRECONDITION-FALSE");
            std::process::exit(3);
        }
    }
}

// ---- contract stub for std::collections::BinaryHeap::push -----------------------------------------------------------
// "the element is added to the queue": the stub records the pushed element (type-erased) instead of executing the
// sift-up, whose comparisons are the business of the order harnesses.  Harnesses read the record with `pushed::<T>(i)`.
pub const MAX_PUSH: usize = 40;
pub static mut PUSH_SLOT: [*const (); MAX_PUSH] = [std::ptr::null(); MAX_PUSH];
pub static mut PUSH_N: usize = 0;

#[cfg(kani)]
pub fn heap_push_recorder<T: Ord, A: std::alloc::Allocator>(_this: &mut std::collections::BinaryHeap<T, A>, item: T) {
    unsafe {
        assert!(PUSH_N < MAX_PUSH, "push recorder full");
        PUSH_SLOT[PUSH_N] = Box::into_raw(Box::new(item)) as *const ();
        PUSH_N += 1;
    }
}

pub fn pushed_count() -> usize {
    unsafe { PUSH_N }
}

/// the i-th pushed element (harness knows the element type)
pub unsafe fn pushed<T: Clone>(i: usize) -> T {
    (*(PUSH_SLOT[i] as *const T)).clone()
}
