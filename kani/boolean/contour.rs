//! U-C3 (C02, C03): `Contour::initialize_from_context` -- the parent of a new ring is chosen by the four cases of
//! Martinez Fig. 4, read off the nearest lower result edge and its result transition; the nesting bookkeeping
//! (hole_of / hole_ids / depth) stays consistent.  Slice length 3 (the function touches at most two entries).
use super::super::connect_edges::Contour;
use super::super::sweep_event::{ResultTransition, SweepEvent};
use super::fields::any_rt;
use super::src::*;
use geo_types::Coord;
use std::rc::{Rc, Weak};

const N: usize = 3;

pub fn contour_parent_body<S: Src>(s: &mut S) {
    // existing contours with arbitrary but consistent bookkeeping
    let mut contours: Vec<Contour<f64>> = Vec::with_capacity(N);
    let mut hole_of = [None; N];
    let mut depth = [0i32; N];
    let mut nholes = [0usize; N];
    let mut i = 0;
    while i < N {
        let h = s.i32();
        let is_hole = s.bool();
        depth[i] = s.i32();
        s.assume(depth[i] >= 0 && depth[i] < 1000);
        hole_of[i] = if is_hole { Some(h) } else { None };
        let mut c = Contour::new(hole_of[i], depth[i]);
        c.hole_ids.reserve(2);
        if s.bool() {
            c.hole_ids.push(7);
            nholes[i] = 1;
        }
        contours.push(c);
        i += 1;
    }
    // requires (bookkeeping invariant): a hole's parent is in range and is an exterior contour
    let mut i = 0;
    while i < N {
        if let Some(p) = hole_of[i] {
            s.assume(p >= 0 && (p as usize) < N && p as usize != i);
            s.assume(hole_of[p as usize].is_none());
        }
        i += 1;
    }
    let contour_id = N as i32;

    // the ring's first event and the nearest lower result edge recorded for it
    let has_lower = s.bool();
    let lower_rt = any_rt(s);
    let lower_id = s.i32();
    let lower_r = SweepEvent::new_rc(1, Coord { x: 1.0, y: 0.0 }, false, Weak::new(), true, true);
    let lower = SweepEvent::new_rc(1, Coord { x: 0.0, y: 0.0 }, true, Rc::downgrade(&lower_r), true, true);
    lower.set_result_transition(lower_rt);
    lower.set_output_contour_id(lower_id);
    let ev_r = SweepEvent::new_rc(2, Coord { x: 1.0, y: 1.0 }, false, Weak::new(), true, true);
    let ev = SweepEvent::new_rc(2, Coord { x: 0.0, y: 1.0 }, true, Rc::downgrade(&ev_r), true, true);
    if has_lower {
        ev.set_prev_in_result(&lower);
    }
    // requires: the lower edge is a result edge that already belongs to an output contour (it was processed earlier)
    s.assume(!has_lower || (lower_rt != ResultTransition::None && lower_id >= 0 && (lower_id as usize) < N));
    vcover!(has_lower && lower_rt == ResultTransition::OutIn && hole_of[lower_id as usize].is_some(), "lower-is-hole");
    vcover!(has_lower && lower_rt == ResultTransition::OutIn && hole_of[lower_id as usize].is_none(), "lower-is-exterior");
    vcover!(has_lower && lower_rt == ResultTransition::InOut, "above-an-exterior-top");
    vcover!(!has_lower, "nothing-below");

    let c = Contour::initialize_from_context(&ev, &mut contours, contour_id);

    // ---- ensures: Fig. 4 table
    let lid = lower_id as usize;
    let expected_parent: Option<i32> = if !has_lower || lower_rt != ResultTransition::OutIn {
        None // nothing below, or the region just below the new ring is outside the result: an exterior ring
    } else if let Some(p) = hole_of[lid] {
        Some(p) // inside the polygon whose hole lies below: a sibling hole of the same exterior
    } else {
        Some(lower_id) // inside the exterior ring below: its hole
    };
    assert!(c.hole_of == expected_parent, "C02: parent of a new ring = the exterior ring that bounds the region just below it");
    assert!(c.is_exterior() == expected_parent.is_none(), "C02: exterior iff no parent");
    if let Some(p) = expected_parent {
        assert!(hole_of[p as usize].is_none(), "C02: a hole is never listed under another hole");
        assert!(contours[p as usize].hole_ids.len() == nholes[p as usize] + 1 && *contours[p as usize].hole_ids.last().unwrap() == contour_id,
            "C02: the parent lists the new ring as its hole");
    }
    let expected_depth = if !has_lower {
        0
    } else if lower_rt != ResultTransition::OutIn {
        depth[lid]
    } else if hole_of[lid].is_some() {
        depth[lid]
    } else {
        depth[lid] + 1
    };
    assert!(c.depth == expected_depth, "C02: depth bookkeeping");
    assert!(c.points.len() == 0 && c.hole_ids.len() == 0, "new contour starts empty");
    // frame: nothing else changed
    let mut i = 0;
    while i < N {
        assert!(contours[i].hole_of == hole_of[i] && contours[i].depth == depth[i], "C02 frame: existing nesting untouched");
        if expected_parent != Some(i as i32) {
            assert!(contours[i].hole_ids.len() == nholes[i], "C02 frame: only the parent's hole list grows");
        }
        i += 1;
    }
    std::mem::forget((contours, c, lower, lower_r, ev, ev_r));
}

#[cfg(kani)]
mod proofs {
    use super::*;

    #[kani::proof]
    #[kani::unwind(5)]
    fn contour_parent() {
        contour_parent_body(&mut KaniSrc);
    }
}
