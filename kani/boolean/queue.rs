//! U-Q1 (C13, C04, C05, C07, C10): `fill_queue` / `process_polygon`: one mutually linked left/right pair per
//! non-degenerate edge, none for collapsed edges, flags and ids as the statements describe, exact bounding boxes.
//! U-Q3 (C06, C09): the front end of `boolean_operation` with `trivial_result`: empty operand / disjoint boxes give the
//! obvious combination and the sweep is not entered.
//! Bounded stand-ins in ring size: subject = one polygon with one hole, clipping = one polygon, every ring given by
//! three symbolic vertices (closed by repeating the first); collapsed edges are covered by separate instances.
use super::super::fill_queue::fill_queue;
use super::super::helper::{BoundingBox, Float};
use super::super::sweep_event::SweepEvent;
use super::super::{BooleanOp, Operation};
use super::fields::any_op;
use super::src::*;
use geo_types::{Coord, LineString, MultiPolygon, Polygon};
use std::collections::BinaryHeap;
use std::rc::Rc;

fn fin<F: AnyF, S: Src>(s: &mut S) -> F {
    let v = F::any(s);
    s.assume(v.is_finite());
    v
}

fn pt<F: AnyF, S: Src>(s: &mut S) -> Coord<F> {
    Coord { x: fin::<F, S>(s), y: fin::<F, S>(s) }
}

/// vertex number `i` of an instance.  mode 1: x is the concrete value i (all vertices distinct by construction, so the
/// number of events is concrete), y symbolic; mode 2: transposed; mode 0: both symbolic.
fn vtx<F: AnyF, S: Src>(s: &mut S, mode: u8, i: u32) -> Coord<F> {
    let c = F::from(i as f64).unwrap();
    match mode {
        1 => Coord { x: c, y: fin::<F, S>(s) },
        2 => Coord { x: fin::<F, S>(s), y: c },
        _ => pt::<F, S>(s),
    }
}

fn ring<F: AnyF>(v: [Coord<F>; 3]) -> LineString<F> {
    LineString(vec![v[0], v[1], v[2], v[0]])
}

fn lex_lt<F: Float>(a: Coord<F>, b: Coord<F>) -> bool {
    a.x < b.x || (a.x == b.x && a.y < b.y)
}

fn linked<F: AnyF>(a: &Rc<SweepEvent<F>>, b: &Rc<SweepEvent<F>>) -> bool {
    let (x, y) = (a.get_other_event(), b.get_other_event());
    let ok = match (&x, &y) {
        (Some(x), Some(y)) => Rc::ptr_eq(x, b) && Rc::ptr_eq(y, a),
        _ => false,
    };
    std::mem::forget((x, y));
    ok
}

/// the i-th event created (Kani: read from the push contract stub's record)
#[cfg(kani)]
fn nth_pushed<F: AnyF>(i: usize) -> Rc<SweepEvent<F>> {
    unsafe { pushed::<Rc<SweepEvent<F>>>(i) }
}

#[cfg(not(kani))]
fn nth_pushed<F: AnyF>(_i: usize) -> Rc<SweepEvent<F>> {
    unimplemented!("fill_queue instances are not replayed natively (creation order is not observable on the real heap)")
}

/// exactly the edge `collapsed` of the ring is degenerate (3: none)
fn ring_shape<F: AnyF>(r: [Coord<F>; 3], collapsed: usize) -> bool {
    let mut ok = true;
    let mut e = 0;
    while e < 3 {
        ok = ok && ((r[e] == r[(e + 1) % 3]) == (e == collapsed));
        e += 1;
    }
    ok
}

/// One instance of the fill_queue contract.  `shape` (concrete per harness) selects a small operand pair:
///   0: subject = one triangle (3 edges), clipping empty            -> per-edge clauses, boxes
///   1: subject = one 2-gon with a 2-gon hole, clipping empty       -> hole flag / id
///   2: subject = one 2-gon, clipping = one 2-gon                  -> clipping flag / id incl. the difference rule
///   3: subject = two 2-gons, clipping empty                       -> ids count up per polygon
///   4: subject = triangle whose first edge is collapsed (repeated vertex) -> no events for it
///   5: subject empty, clipping = one 2-gon with a 2-gon hole       -> flags / ids of clipping rings, hole flag
///   6: subject = one polygon whose exterior ring and whose one interior ring have NO coordinates -> returns, no events (C03)
/// (a "2-gon" is the ring a, b, a: two edges, the smallest ring Polygon::new leaves alone).
pub fn fill_queue_contract_body<F: AnyF, S: Src>(s: &mut S, shape: u8) {
    let op = any_op(s);
    let v = [pt::<F, S>(s), pt::<F, S>(s), pt::<F, S>(s), pt::<F, S>(s)];
    let gon = |a: Coord<F>, b: Coord<F>| LineString(vec![a, b, a]);
    let (subject, clipping): (Vec<Polygon<F>>, Vec<Polygon<F>>) = match shape {
        0 => (vec![Polygon::new(ring([v[0], v[1], v[2]]), vec![])], vec![]),
        1 => (vec![Polygon::new(gon(v[0], v[1]), vec![gon(v[2], v[3])])], vec![]),
        2 => (vec![Polygon::new(gon(v[0], v[1]), vec![])], vec![Polygon::new(gon(v[2], v[3]), vec![])]),
        3 => (vec![Polygon::new(gon(v[0], v[1]), vec![]), Polygon::new(gon(v[2], v[3]), vec![])], vec![]),
        5 => (vec![], vec![Polygon::new(gon(v[0], v[1]), vec![gon(v[2], v[3])])]),
        6 => (vec![Polygon::new(LineString(vec![]), vec![LineString(vec![])])], vec![]),
        _ => (vec![Polygon::new(ring([v[0], v[0], v[2]]), vec![])], vec![]),
    };
    // requires (shape of the instance): the edges that are meant to exist are non-degenerate
    match shape {
        0 => s.assume(v[0] != v[1] && v[1] != v[2] && v[2] != v[0]),
        4 => s.assume(v[0] != v[2]),
        _ => s.assume(v[0] != v[1] && v[2] != v[3]),
    }
    let init = BoundingBox { min: Coord { x: F::infinity(), y: F::infinity() }, max: Coord { x: F::neg_infinity(), y: F::neg_infinity() } };
    let (mut sbbox, mut cbbox) = (init, init);
    vcover!(op == Operation::Difference, "difference-ids");
    vcover!(lex_lt(v[1], v[0]), "edge-against-sweep-direction");

    let queue = fill_queue(&subject, &clipping, &mut sbbox, &mut cbbox, op);
    std::mem::forget(queue);

    // edges in creation order: (start, end, subject, contour id, exterior flag); at most 4 per instance
    let (cid, cext) = if op != Operation::Difference { (2, true) } else { (1, false) };
    let none = (v[0], v[0], false, 0u32, false);
    let (n_edges, edges): (usize, [(Coord<F>, Coord<F>, bool, u32, bool); 4]) = match shape {
        0 => (3, [(v[0], v[1], true, 1, true), (v[1], v[2], true, 1, true), (v[2], v[0], true, 1, true), none]),
        1 => (4, [(v[0], v[1], true, 1, true), (v[1], v[0], true, 1, true), (v[2], v[3], true, 1, false), (v[3], v[2], true, 1, false)]),
        2 => (4, [(v[0], v[1], true, 1, true), (v[1], v[0], true, 1, true), (v[2], v[3], false, cid, cext), (v[3], v[2], false, cid, cext)]),
        6 => (0, [none, none, none, none]),
        3 => (4, [(v[0], v[1], true, 1, true), (v[1], v[0], true, 1, true), (v[2], v[3], true, 2, true), (v[3], v[2], true, 2, true)]),
        5 => {
            // no subject polygon: the first clipping polygon gets id 1 and an exterior flag unless the operation is a
            // difference (then clipping rings share the last subject id, here 0, and are never exterior); holes never are
            let (id, ext) = if op != Operation::Difference { (1, true) } else { (0, false) };
            (4, [(v[0], v[1], false, id, ext), (v[1], v[0], false, id, ext), (v[2], v[3], false, id, false), (v[3], v[2], false, id, false)])
        }
        _ => (2, [(v[0], v[2], true, 1, true), (v[2], v[0], true, 1, true), none, none]),
    };
    assert!(pushed_count() == 2 * n_edges, "C13: exactly one pair of events per non-degenerate edge, none for a collapsed edge");
    let init_box = init;
    let (mut sb, mut cb) = (init_box, init_box);
    let mut k = 0;
    while k < 4 {
        if k < n_edges {
            let (u, vv, subj, id, exterior) = edges[k];
            let (e1, e2) = (nth_pushed::<F>(2 * k), nth_pushed::<F>(2 * k + 1));
            assert!(e1.point == u && e2.point == vv, "C04/C13: the two events sit on the edge's two vertices, bit for bit");
            assert!(linked(&e1, &e2), "C13: the pair is mutually linked");
            assert!(e1.is_left() != e2.is_left(), "C13: exactly one of the pair is the left event");
            assert!(e1.is_left() == lex_lt(u, vv), "C13/C07: the left event is the (x, y)-smaller vertex, whatever the edge's direction");
            assert!(e1.is_subject == subj && e2.is_subject == subj, "C13: operand flag");
            assert!(e1.contour_id == id && e2.contour_id == id, "C05/C13: contour id");
            assert!(e1.is_exterior_ring == exterior && e2.is_exterior_ring == exterior, "C05/C13: exterior-ring flag");
            std::mem::forget((e1, e2));
            // exact boxes: min / max over the vertices of each operand's edges
            let b = if subj { &mut sb } else { &mut cb };
            if u.x < b.min.x { b.min.x = u.x; }
            if u.y < b.min.y { b.min.y = u.y; }
            if u.x > b.max.x { b.max.x = u.x; }
            if u.y > b.max.y { b.max.y = u.y; }
        }
        k += 1;
    }
    assert!(sbbox == sb, "C13: subject box is the exact min/max over the vertices (an operand without edges keeps the empty box)");
    assert!(cbbox == cb, "C13: clipping box is the exact min/max over the vertices (an operand without edges keeps the empty box)");
    std::mem::forget((subject, clipping));
}

// ---- U-Q3 ---------------------------------------------------------------------------------------------------------------
#[cfg(kani)]
pub fn subdivide_unreachable<F: Float>(
    _q: &mut BinaryHeap<Rc<SweepEvent<F>>>, _s: &BoundingBox<F>, _c: &BoundingBox<F>, _o: Operation,
) -> Vec<Rc<SweepEvent<F>>> {
    assert!(false, "C06/C09: the sweep is entered although the shortcut applies");
    Vec::new()
}

/// Contract stub of `fill_queue` for its caller's harness: the boxes become the exact min/max over the vertices of each
/// operand's rings (what `fill_queue_*` prove for rings that have an edge), the queue content is not consulted by the
/// front end before the shortcut.
#[cfg(kani)]
pub fn fill_queue_by_contract<F: Float>(
    subject: &[Polygon<F>], clipping: &[Polygon<F>], sbbox: &mut BoundingBox<F>, cbbox: &mut BoundingBox<F>, _operation: Operation,
) -> BinaryHeap<Rc<SweepEvent<F>>> {
    fn grow<F: Float>(polys: &[Polygon<F>], b: &mut BoundingBox<F>) {
        let mut i = 0;
        while i < polys.len() {
            let pts = &polys[i].exterior().0;
            let mut j = 0;
            while j < pts.len() {
                if pts[j].x < b.min.x { b.min.x = pts[j].x; }
                if pts[j].y < b.min.y { b.min.y = pts[j].y; }
                if pts[j].x > b.max.x { b.max.x = pts[j].x; }
                if pts[j].y > b.max.y { b.max.y = pts[j].y; }
                j += 1;
            }
            i += 1;
        }
    }
    grow(subject, sbbox);
    grow(clipping, cbbox);
    BinaryHeap::new()
}

fn first_x<F: Float>(p: &Polygon<F>) -> F {
    p.exterior().0[0].x
}

/// which: 0 = clipping empty, 1 = subject empty, 2 = both non-empty, boxes separated in x, 3 = separated in y
pub fn trivial_result_body<F: AnyF, S: Src>(s: &mut S, which: u8, opcode: u8) {
    let op = match opcode {
        0 => Operation::Intersection,
        1 => Operation::Difference,
        2 => Operation::Union,
        _ => Operation::Xor,
    };
    let a = [pt::<F, S>(s), pt::<F, S>(s), pt::<F, S>(s)];
    let b = [pt::<F, S>(s), pt::<F, S>(s), pt::<F, S>(s)];
    // proper triangles (collapsed edges are the business of the fill_queue harnesses)
    s.assume(ring_shape(a, 3) && ring_shape(b, 3));
    let pa = Polygon::new(ring(a), vec![]);
    let pb = Polygon::new(ring(b), vec![]);
    let (amax_x, bmin_x) = (hi3(a[0].x, a[1].x, a[2].x), lo3(b[0].x, b[1].x, b[2].x));
    let (amax_y, bmin_y) = (hi3(a[0].y, a[1].y, a[2].y), lo3(b[0].y, b[1].y, b[2].y));
    if which == 2 {
        s.assume(amax_x < bmin_x);
    }
    if which == 3 {
        s.assume(bmin_y > amax_y);
    }
    vcover!(a[0].x < a[1].x, "instance-reachable");
    let empty: MultiPolygon<F> = MultiPolygon(vec![]);
    let ma: MultiPolygon<F> = MultiPolygon(vec![pa]);
    let mb: MultiPolygon<F> = MultiPolygon(vec![pb]);
    let (subj, clip) = match which {
        0 => (&ma, &empty),
        1 => (&empty, &mb),
        _ => (&ma, &mb),
    };
    let r = subj.boolean(clip, op);
    // expected: intersection -> empty; difference -> subject; union / xor -> subject ++ clipping
    let (ns, nc) = (subj.0.len(), clip.0.len());
    match op {
        Operation::Intersection => assert!(r.0.len() == 0, "C06: intersection with an empty / box-disjoint operand is empty"),
        Operation::Difference => {
            assert!(r.0.len() == ns, "C06: A minus an empty / box-disjoint operand is A");
            if ns == 1 {
                assert!(r.0[0].exterior().0.len() == 4 && first_x(&r.0[0]) == a[0].x && r.0[0].exterior().0[1] == a[1] && r.0[0].exterior().0[2] == a[2], "C06: A returned unchanged");
            }
        }
        Operation::Union | Operation::Xor => {
            assert!(r.0.len() == ns + nc, "C06: union / xor of box-disjoint operands lists the parts of both");
            if ns == 1 {
                assert!(r.0[0].exterior().0[0] == a[0] && r.0[0].exterior().0[1] == a[1] && r.0[0].exterior().0[2] == a[2], "C06: subject parts first, unchanged");
            }
            if nc == 1 {
                assert!(r.0[ns].exterior().0[0] == b[0] && r.0[ns].exterior().0[1] == b[1] && r.0[ns].exterior().0[2] == b[2], "C06: clipping parts follow, unchanged");
            }
        }
    }
    std::mem::forget((r, ma, mb, empty));
}

fn lo3<F: Float>(a: F, b: F, c: F) -> F {
    let m = if a < b { a } else { b };
    if m < c { m } else { c }
}

fn hi3<F: Float>(a: F, b: F, c: F) -> F {
    let m = if a > b { a } else { b };
    if m > c { m } else { c }
}

#[cfg(kani)]
mod proofs {
    use super::super::order::orient2d_unreachable;
    use super::*;

    macro_rules! fq_harness {
        ($name:ident, $f:ty, $shape:expr) => {
            #[kani::proof]
            #[kani::stub(robust::orient2d, orient2d_unreachable)]
            #[kani::stub(std::collections::BinaryHeap::push, heap_push_recorder)]
            #[kani::unwind(5)]
            fn $name() {
                fill_queue_contract_body::<$f, _>(&mut KaniSrc, $shape);
            }
        };
    }
    fq_harness!(fill_queue_triangle_f64, f64, 0);
    fq_harness!(fill_queue_hole_f64, f64, 1);
    fq_harness!(fill_queue_clipping_f64, f64, 2);
    // shape 3 (two subject polygons) exhausts CBMC's memory; the id counting it would show is covered by shape 2
    fq_harness!(fill_queue_collapsed_f64, f64, 4);
    fq_harness!(fill_queue_clip_hole_f64, f64, 5);
    fq_harness!(fill_queue_empty_rings_f64, f64, 6);
    fq_harness!(fill_queue_triangle_f32, f32, 0);
    fq_harness!(fill_queue_clipping_f32, f32, 2);

    // one instance per (situation, operation): 0 clipping empty, 1 subject empty, 2 boxes separated in x, 3 separated in y
    macro_rules! tr_harness {
        ($name:ident, $f:ty, $which:expr, $op:expr) => {
            #[kani::proof]
            #[kani::stub(robust::orient2d, orient2d_unreachable)]
            #[kani::stub(super::super::super::fill_queue::fill_queue, fill_queue_by_contract)]
            #[kani::stub(super::super::super::subdivide_segments::subdivide, subdivide_unreachable)]
            #[kani::unwind(5)]
            fn $name() {
                trivial_result_body::<$f, _>(&mut KaniSrc, $which, $op);
            }
        };
    }
    tr_harness!(trivial_clip_empty_intersection_f64, f64, 0, 0);
    tr_harness!(trivial_clip_empty_difference_f64, f64, 0, 1);
    tr_harness!(trivial_clip_empty_union_f64, f64, 0, 2);
    tr_harness!(trivial_clip_empty_xor_f64, f64, 0, 3);
    tr_harness!(trivial_subj_empty_intersection_f64, f64, 1, 0);
    tr_harness!(trivial_subj_empty_difference_f64, f64, 1, 1);
    tr_harness!(trivial_subj_empty_union_f64, f64, 1, 2);
    tr_harness!(trivial_subj_empty_xor_f64, f64, 1, 3);
    tr_harness!(trivial_xsep_intersection_f64, f64, 2, 0);
    tr_harness!(trivial_xsep_difference_f64, f64, 2, 1);
    tr_harness!(trivial_xsep_union_f64, f64, 2, 2);
    tr_harness!(trivial_xsep_xor_f64, f64, 2, 3);
    tr_harness!(trivial_ysep_intersection_f64, f64, 3, 0);
    tr_harness!(trivial_ysep_difference_f64, f64, 3, 1);
    tr_harness!(trivial_ysep_union_f64, f64, 3, 2);
    tr_harness!(trivial_ysep_xor_f64, f64, 3, 3);
    tr_harness!(trivial_ysep_difference_f32, f32, 3, 1);
    tr_harness!(trivial_xsep_union_f32, f32, 2, 2);
}
