//! U-Q2 (C07): the four `BooleanOp` impls and the four provided methods against the contract of `boolean_operation`
//! (the callee is replaced by a recorder stub: the impls are checked against the callee's contract, not its body).
//! U-Q3 (C06): `trivial_result`.
use super::super::helper::Float;
use super::super::{BooleanOp, Operation};
use super::src::*;
use geo_types::{Coord, LineString, MultiPolygon, Polygon};

pub const RESULT_MARK: f64 = 99.0;

static mut REC_CALLS: u32 = 0;
static mut REC_SUBJECT: [f64; 3] = [0.0; 3]; // len, marker of [0], marker of [1]
static mut REC_CLIPPING: [f64; 3] = [0.0; 3];
static mut REC_OP: u8 = 255;

fn op_code(op: Operation) -> u8 {
    match op {
        Operation::Intersection => 0,
        Operation::Difference => 1,
        Operation::Union => 2,
        Operation::Xor => 3,
    }
}

fn marker<F: Float>(p: &Polygon<F>) -> f64 {
    p.exterior().0[0].x.into()
}

fn tri<F: Float>(mark: f64) -> Polygon<F> {
    let c = |x: f64, y: f64| Coord { x: F::from(x).unwrap(), y: F::from(y).unwrap() };
    Polygon::new(LineString(vec![c(mark, 0.0), c(mark + 0.25, 0.0), c(mark, 1.0), c(mark, 0.0)]), vec![])
}

/// recorder standing in for `boolean_operation`: remembers what it was handed, returns a marked value
pub fn boolean_operation_recorder<F: Float>(subject: &[Polygon<F>], clipping: &[Polygon<F>], operation: Operation) -> MultiPolygon<F> {
    unsafe {
        REC_CALLS += 1;
        REC_SUBJECT = [subject.len() as f64, if subject.len() > 0 { marker(&subject[0]) } else { -1.0 }, if subject.len() > 1 { marker(&subject[1]) } else { -1.0 }];
        REC_CLIPPING = [clipping.len() as f64, if clipping.len() > 0 { marker(&clipping[0]) } else { -1.0 }, if clipping.len() > 1 { marker(&clipping[1]) } else { -1.0 }];
        REC_OP = op_code(operation);
    }
    MultiPolygon(vec![tri(RESULT_MARK)])
}

fn call<F: Float, A: BooleanOp<F, B>, B>(a: &A, b: &B, which: u8, op: Operation) -> (MultiPolygon<F>, Operation) {
    match which % 5 {
        0 => (a.boolean(b, op), op),
        1 => (a.intersection(b), Operation::Intersection),
        2 => (a.difference(b), Operation::Difference),
        3 => (a.union(b), Operation::Union),
        _ => (a.xor(b), Operation::Xor),
    }
}

fn check_record<F: Float>(res: &MultiPolygon<F>, subj: [f64; 3], clip: [f64; 3], op: Operation) {
    unsafe {
        assert!(REC_CALLS == 1, "C07: the shared routine is entered exactly once");
        assert!(REC_SUBJECT == subj, "C07: the receiver's polygons are the subject, in order");
        assert!(REC_CLIPPING == clip, "C07: the argument's polygons are the clipping operand, in order");
        assert!(REC_OP == op_code(op), "C07: the operation named by the method is the one performed");
    }
    assert!(res.0.len() == 1 && marker(&res.0[0]) == RESULT_MARK, "C07: the routine's result is returned unchanged");
}

/// pairing: 0 Polygon/Polygon, 1 Polygon/MultiPolygon, 2 MultiPolygon/MultiPolygon, 3 MultiPolygon/Polygon
pub fn trait_impl_body<F: AnyF, S: Src>(s: &mut S, pairing: u8) {
    let which = s.u8();
    let op = super::fields::any_op(s);
    let p1: Polygon<F> = tri(1.0);
    let p2: Polygon<F> = tri(2.0);
    let m1: MultiPolygon<F> = MultiPolygon(vec![tri(1.0), tri(1.5)]);
    let m2: MultiPolygon<F> = MultiPolygon(vec![tri(2.0), tri(2.5)]);
    vcover!(which % 5 == 0 && op == Operation::Xor, "boolean-xor");
    vcover!(which % 5 == 2, "difference-method");
    match pairing {
        0 => {
            let (r, o) = call(&p1, &p2, which, op);
            check_record(&r, [1.0, 1.0, -1.0], [1.0, 2.0, -1.0], o);
            std::mem::forget(r);
        }
        1 => {
            let (r, o) = call(&p1, &m2, which, op);
            check_record(&r, [1.0, 1.0, -1.0], [2.0, 2.0, 2.5], o);
            std::mem::forget(r);
        }
        2 => {
            let (r, o) = call(&m1, &m2, which, op);
            check_record(&r, [2.0, 1.0, 1.5], [2.0, 2.0, 2.5], o);
            std::mem::forget(r);
        }
        _ => {
            let (r, o) = call(&m1, &p2, which, op);
            check_record(&r, [2.0, 1.0, 1.5], [1.0, 2.0, -1.0], o);
            std::mem::forget(r);
        }
    }
    std::mem::forget((p1, p2, m1, m2));
}

#[cfg(kani)]
mod proofs {
    use super::*;

    macro_rules! impl_harness {
        ($name:ident, $f:ty, $pairing:expr) => {
            #[kani::proof]
            #[kani::stub(super::super::super::boolean_operation, boolean_operation_recorder)]
            #[kani::unwind(8)]
            fn $name() {
                trait_impl_body::<$f, _>(&mut KaniSrc, $pairing);
            }
        };
    }
    impl_harness!(trait_impl_poly_poly_f64, f64, 0);
    impl_harness!(trait_impl_poly_multi_f64, f64, 1);
    impl_harness!(trait_impl_multi_multi_f64, f64, 2);
    impl_harness!(trait_impl_multi_poly_f64, f64, 3);
    impl_harness!(trait_impl_poly_poly_f32, f32, 0);
    impl_harness!(trait_impl_poly_multi_f32, f32, 1);
    impl_harness!(trait_impl_multi_multi_f32, f32, 2);
    impl_harness!(trait_impl_multi_poly_f32, f32, 3);
}
