//! U-I1 (C04, C16, C10): `intersection` = bounding-box clamp around `intersection_impl`.
//! For all finite floats and whatever (non-NaN) value the kernel computes, a reported point lies inside the bounding
//! boxes of BOTH segments, and segments with disjoint boxes are reported as not intersecting.
use super::super::helper::{BoundingBox, Float};
use super::super::segment_intersection::{intersection, LineIntersection};
use super::src::*;
use geo_types::Coord;

fn fin<F: AnyF, S: Src>(s: &mut S) -> F {
    let v = F::any(s);
    s.assume(v.is_finite());
    v
}

fn pt<F: AnyF, S: Src>(s: &mut S) -> Coord<F> {
    Coord { x: fin::<F, S>(s), y: fin::<F, S>(s) }
}

fn lo<F: Float>(a: F, b: F) -> F {
    if a < b {
        a
    } else {
        b
    }
}

fn hi<F: Float>(a: F, b: F) -> F {
    if a < b {
        b
    } else {
        a
    }
}

pub fn in_box<F: Float>(p: Coord<F>, a: Coord<F>, b: Coord<F>) -> bool {
    lo(a.x, b.x) <= p.x && p.x <= hi(a.x, b.x) && lo(a.y, b.y) <= p.y && p.y <= hi(a.y, b.y)
}

/// contract stub of the arithmetic kernel: any classification, any coordinates that are not NaN
#[cfg(kani)]
pub fn intersection_impl_any<F: Float>(_a1: Coord<F>, _a2: Coord<F>, _b1: Coord<F>, _b2: Coord<F>) -> LineIntersection<F> {
    fn c<F: Float>() -> Coord<F> {
        let (x, y): (f64, f64) = (kani::any(), kani::any());
        kani::assume(!x.is_nan() && !y.is_nan());
        let (fx, fy) = (F::from(x).unwrap(), F::from(y).unwrap());
        kani::assume(!fx.is_nan() && !fy.is_nan());
        Coord { x: fx, y: fy }
    }
    match kani::any::<u8>() % 3 {
        0 => LineIntersection::None,
        1 => LineIntersection::Point(c()),
        _ => LineIntersection::Overlap(c(), c()),
    }
}

pub fn intersection_in_boxes_body<F: AnyF, S: Src>(s: &mut S) {
    let (a1, a2, b1, b2) = (pt::<F, S>(s), pt::<F, S>(s), pt::<F, S>(s), pt::<F, S>(s));
    let disjoint = hi(a1.x, a2.x) < lo(b1.x, b2.x) || hi(b1.x, b2.x) < lo(a1.x, a2.x) || hi(a1.y, a2.y) < lo(b1.y, b2.y) || hi(b1.y, b2.y) < lo(a1.y, a2.y);
    let r = intersection(a1, a2, b1, b2);
    vcover!(matches!(r, LineIntersection::Point(_)), "point");
    vcover!(matches!(r, LineIntersection::Overlap(_, _)), "overlap");
    vcover!(disjoint, "disjoint-boxes");
    match r {
        LineIntersection::None => {}
        LineIntersection::Point(p) => {
            assert!(in_box(p, a1, a2), "C04/C16: intersection point inside the box of the first segment");
            assert!(in_box(p, b1, b2), "C04/C16: intersection point inside the box of the second segment");
        }
        LineIntersection::Overlap(p, q) => {
            assert!(in_box(p, a1, a2) && in_box(q, a1, a2), "C04/C16: overlap ends inside the box of the first segment");
            assert!(in_box(p, b1, b2) && in_box(q, b1, b2), "C04/C16: overlap ends inside the box of the second segment");
        }
    }
    if disjoint {
        assert!(matches!(r, LineIntersection::None), "C16: disjoint boxes => no intersection reported");
    }
}

#[cfg(kani)]
mod proofs {
    use super::*;

    #[kani::proof]
    #[kani::stub(super::super::super::segment_intersection::intersection_impl, intersection_impl_any)]
    fn intersection_in_boxes_f64() {
        intersection_in_boxes_body::<f64, _>(&mut KaniSrc);
    }

    #[kani::proof]
    #[kani::stub(super::super::super::segment_intersection::intersection_impl, intersection_impl_any)]
    fn intersection_in_boxes_f32() {
        intersection_in_boxes_body::<f32, _>(&mut KaniSrc);
    }
}

// ---- endpoint reuse (C04: "endpoint intersections reuse the endpoint instead of a computed point") ---------------------------
// Real float arithmetic of the kernel, no stub.  If the kernel's own float test puts a1 on the supporting line of b
// (cross(b1 - a1, b2 - b1) == 0 while the segments are not parallel), then a reported point IS a1, bit for bit -- not a
// recomputed point that may be off by an ulp.  Likewise for b1 on the line of a.  Bounded magnitude so that no
// intermediate overflows; f32 only (the f64 multipliers are out of CBMC's reach in this function).
pub fn endpoint_reuse_body<S: Src>(s: &mut S) {
    fn small<S: Src>(s: &mut S) -> f32 {
        let v = s.f32();
        s.assume(v.is_finite() && v >= -1024.0 && v <= 1024.0);
        v
    }
    let a1 = Coord { x: small(s), y: small(s) };
    let a2 = Coord { x: small(s), y: small(s) };
    let b1 = Coord { x: small(s), y: small(s) };
    let b2 = Coord { x: small(s), y: small(s) };
    let (vax, vay) = (a2.x - a1.x, a2.y - a1.y);
    let (vbx, vby) = (b2.x - b1.x, b2.y - b1.y);
    let (ex, ey) = (b1.x - a1.x, b1.y - a1.y);
    let kross = vax * vby - vay * vbx;
    s.assume(kross * kross > 0.0);
    let a1_on_b = ex * vby - ey * vbx == 0.0; // the kernel's parameter s is exactly 0
    let b1_on_a = ex * vay - ey * vax == 0.0; // the kernel's parameter t is exactly 0
    s.assume(a1_on_b || b1_on_a);
    vcover!(a1_on_b && !b1_on_a, "a1-on-b");
    vcover!(b1_on_a && !a1_on_b, "b1-on-a");
    let r = intersection(a1, a2, b1, b2);
    if let LineIntersection::Point(p) = r {
        if a1_on_b && in_box(a1, b1, b2) {
            assert!(p == a1, "C04: an intersection in the first segment's start point reuses that point bit for bit");
        } else if b1_on_a && in_box(b1, a1, a2) {
            let sf = (ex * vby - ey * vbx) / kross; // the kernel's parameter on the first segment
            if sf > 0.0 && sf < 1.0 {
                assert!(p == b1, "C04: an intersection in the second segment's start point reuses that point bit for bit");
            }
        }
    }
}

#[cfg(kani)]
mod proofs_reuse {
    use super::*;

    #[kani::proof]
    fn endpoint_reuse_f32() {
        endpoint_reuse_body(&mut KaniSrc);
    }
}
