//! U-F1 / U-F2: contract of `compute_fields` (with the private `in_result` and
//! `determine_result_transition` through it).  Spec written from the statement of C14 / C05 / C02:
//! membership of the two operands just below and just above the edge decides selection and direction.
use super::super::compute_fields::compute_fields;
use super::super::sweep_event::{EdgeType, ResultTransition, SweepEvent};
use super::super::Operation;
use super::src::*;
use geo_types::Coord;
use std::rc::{Rc, Weak};

pub fn any_op<S: Src>(s: &mut S) -> Operation {
    match s.u8() % 4 {
        0 => Operation::Intersection,
        1 => Operation::Difference,
        2 => Operation::Union,
        _ => Operation::Xor,
    }
}

pub fn any_et<S: Src>(s: &mut S) -> EdgeType {
    match s.u8() % 4 {
        0 => EdgeType::Normal,
        1 => EdgeType::NonContributing,
        2 => EdgeType::SameTransition,
        _ => EdgeType::DifferentTransition,
    }
}

pub fn any_rt<S: Src>(s: &mut S) -> ResultTransition {
    match s.u8() % 3 {
        0 => ResultTransition::None,
        1 => ResultTransition::InOut,
        _ => ResultTransition::OutIn,
    }
}

/// The Boolean function an operation names (subject membership, clipping membership).
pub fn member(op: Operation, s: bool, c: bool) -> bool {
    match op {
        Operation::Intersection => s && c,
        Operation::Union => s || c,
        Operation::Difference => s && !c,
        Operation::Xor => s != c,
    }
}

/// a left event with a live right partner; vertical or not
fn seg(id: u32, x0: f64, y0: f64, vertical: bool, subj: bool) -> (Rc<SweepEvent<f64>>, Rc<SweepEvent<f64>>) {
    let x1 = if vertical { x0 } else { x0 + 1.0 };
    let r = SweepEvent::new_rc(id, Coord { x: x1, y: y0 + 1.0 }, false, Weak::new(), subj, true);
    let l = SweepEvent::new_rc(id, Coord { x: x0, y: y0 }, true, Rc::downgrade(&r), subj, true);
    r.set_other_event(&l);
    (l, r)
}

/// (1)-(4): propagation, selection, direction -- for every flag state, operation, edge type
pub fn fields_select_body<S: Src>(s: &mut S) {
    let op = any_op(s);
    let subj = s.bool();
    let et = any_et(s);
    let has_prev = s.bool();
    let prev_subj = s.bool();
    let prev_vertical = s.bool();
    let (p_in_out, p_other_in_out) = (s.bool(), s.bool());

    let (prev, prev_r) = seg(2, 0.0, 1.0, prev_vertical, prev_subj);
    prev.set_in_out(p_in_out, p_other_in_out);
    prev.set_result_transition(any_rt(s));
    prev.set_edge_type(any_et(s));
    let (ev, ev_r) = seg(4, 0.0, 2.0, s.bool(), subj);
    ev.set_edge_type(et);
    ev.set_in_out(s.bool(), s.bool()); // garbage from an earlier computation must not matter
    ev.set_result_transition(any_rt(s));

    vcover!(has_prev && et == EdgeType::SameTransition && op == Operation::Union, "coincident-same-union");
    vcover!(has_prev && et == EdgeType::DifferentTransition && op == Operation::Difference && !subj, "coincident-diff-clipping");
    vcover!(has_prev && prev_vertical && prev_subj != subj, "vertical-prev-other-operand");
    vcover!(!has_prev && et == EdgeType::Normal && op == Operation::Xor, "first-edge-xor");

    compute_fields(&ev, if has_prev { Some(&prev) } else { None }, op);

    // ---- (1) propagation: the state just below the event is the state just above its predecessor
    let (exp_in_out, exp_other_in_out) = if !has_prev {
        (false, true) // nothing below: outside both; crossing upward enters the own operand
    } else {
        // membership just above prev, of prev's operand and of the other one
        let prevop_above = !p_in_out;
        let other_above = !p_other_in_out;
        if subj == prev_subj {
            // own operand is prev's operand: inside below <=> inside above prev
            (prevop_above, !other_above)
        } else if !prev_vertical {
            (other_above, !prevop_above)
        } else {
            // reading taken from the code ("vertical-predecessor compensation"): a vertical predecessor of the
            // other operand has that operand on the opposite side
            (other_above, prevop_above)
        }
    };
    // in_out == "inside own operand just below" ; other_in_out == "outside the other operand just below"
    assert!(ev.is_in_out() == exp_in_out, "C14 propagation: in_out");
    assert!(ev.is_other_in_out() == exp_other_in_out, "C14 propagation: other_in_out");

    // ---- (2)-(4) selection and direction, from the Boolean function the operation names
    let own_below = ev.is_in_out();
    let own_above = !own_below;
    let (oth_below, oth_above) = match et {
        // ordinary edge: the other operand does not change across it
        EdgeType::Normal | EdgeType::NonContributing => (!ev.is_other_in_out(), !ev.is_other_in_out()),
        // coincident twin with the same / the opposite transition
        EdgeType::SameTransition => (own_below, own_above),
        EdgeType::DifferentTransition => (own_above, own_below),
    };
    let (s_b, c_b) = if subj { (own_below, oth_below) } else { (oth_below, own_below) };
    let (s_a, c_a) = if subj { (own_above, oth_above) } else { (oth_above, own_above) };
    let below = member(op, s_b, c_b);
    let above = member(op, s_a, c_a);
    let rt = ev.get_result_transition();
    if et == EdgeType::NonContributing {
        assert!(rt == ResultTransition::None, "C14: the non-contributing twin never carries the boundary");
    } else {
        assert!((rt != ResultTransition::None) == (below != above), "C14/C05 selection: boundary of the result iff membership changes");
        if below != above {
            assert!((rt == ResultTransition::OutIn) == above, "C14/C02 direction: OutIn iff the result is above the edge");
            assert!((rt == ResultTransition::InOut) == below, "C14/C02 direction: InOut iff the result is below the edge");
        }
    }
    std::mem::forget((prev, prev_r, ev, ev_r));
}

/// (5) nearest lower result edge: None, or a non-vertical result edge -- the predecessor if it qualifies, else what
/// the predecessor recorded; a stale link from an earlier computation is cleared
pub fn fields_prev_in_result_body<S: Src>(s: &mut S) {
    let op = any_op(s);
    let has_prev = s.bool();
    let prev_vertical = s.bool();
    let prev_rt = any_rt(s);
    let prev_has_pir = s.bool(); // prev records a lower result edge
    let pir_rt = any_rt(s);
    let pir_vertical = s.bool();
    let ev_has_stale_pir = s.bool(); // the event was computed before (re-computation)

    let (pp, pp_r) = seg(1, 0.0, 0.0, pir_vertical, true);
    pp.set_result_transition(pir_rt);
    let (prev, prev_r) = seg(2, 0.0, 1.0, prev_vertical, s.bool());
    prev.set_in_out(s.bool(), s.bool());
    prev.set_result_transition(prev_rt);
    // the predecessor may be any kind of edge, in particular the in-result twin of a coincident pair
    let prev_et = any_et(s);
    prev.set_edge_type(prev_et);
    if prev_has_pir {
        prev.set_prev_in_result(&pp);
    }
    let (stale, stale_r) = seg(3, 0.0, -1.0, false, true);
    let (ev, ev_r) = seg(4, 0.0, 2.0, false, s.bool());
    if ev_has_stale_pir {
        ev.set_prev_in_result(&stale);
    }
    // requires (invariant along the sweep, assumed for the predecessor): a recorded lower result edge is in the
    // result and not vertical
    s.assume(!prev_has_pir || (pir_rt != ResultTransition::None && !pir_vertical));
    vcover!(!has_prev && ev_has_stale_pir, "recompute-without-prev");
    vcover!(has_prev && prev_vertical && prev_rt != ResultTransition::None && prev_has_pir, "vertical-result-prev-skipped");
    vcover!(has_prev && !prev_vertical && prev_rt != ResultTransition::None && prev_et == EdgeType::SameTransition, "coincident-result-prev");

    compute_fields(&ev, if has_prev { Some(&prev) } else { None }, op);

    let got = ev.get_prev_in_result();
    let expect: Option<&Rc<SweepEvent<f64>>> = if !has_prev {
        None
    } else if prev_rt != ResultTransition::None && !prev_vertical {
        Some(&prev)
    } else if prev_has_pir {
        Some(&pp)
    } else {
        None
    };
    match (&got, expect) {
        (None, None) => {}
        (Some(g), Some(e)) => {
            assert!(Rc::ptr_eq(g, e), "C14: lower result edge is the predecessor if it is a non-vertical result edge, else the predecessor's");
            assert!(g.is_in_result() && !g.is_vertical(), "C14 invariant: recorded lower edge is a non-vertical result edge");
        }
        _ => assert!(false, "C14: lower result edge present/absent wrongly (stale link must be cleared)"),
    }
    std::mem::forget(got);
    std::mem::forget((pp, pp_r, prev, prev_r, stale, stale_r, ev, ev_r));
}

/// U-F2: the four Boolean functions are mutually consistent (I + U = A + B, X = (A-B) + (B-A) disjoint,
/// I, A-B, B-A partition U) -- the per-edge content of C05 once U-F1 ties each operation to `member`
pub fn member_consistency_body<S: Src>(s: &mut S) {
    let (sv, cv) = (s.bool(), s.bool());
    let i = member(Operation::Intersection, sv, cv);
    let u = member(Operation::Union, sv, cv);
    let d = member(Operation::Difference, sv, cv);
    let d2 = member(Operation::Difference, cv, sv);
    let x = member(Operation::Xor, sv, cv);
    assert!((i as u8) + (u as u8) == (sv as u8) + (cv as u8), "C05: I + U = A + B");
    assert!(x == (d || d2) && !(d && d2), "C05: xor is the disjoint union of the differences");
    assert!((i as u8) + (d as u8) + (d2 as u8) == (u as u8), "C05: I, A-B, B-A partition U");
    assert!(member(Operation::Intersection, sv, cv) == member(Operation::Intersection, cv, sv), "C06: intersection commutes");
    assert!(member(Operation::Union, sv, cv) == member(Operation::Union, cv, sv), "C06: union commutes");
    assert!(member(Operation::Xor, sv, cv) == member(Operation::Xor, cv, sv), "C06: xor commutes");
}

#[cfg(kani)]
#[kani::proof]
fn fields_select() {
    fields_select_body(&mut KaniSrc);
}

#[cfg(kani)]
#[kani::proof]
fn fields_prev_in_result() {
    fields_prev_in_result_body(&mut KaniSrc);
}

#[cfg(kani)]
#[kani::proof]
fn member_consistency() {
    member_consistency_body(&mut KaniSrc);
}
