//! U-W1 (C13 "neighbour checks on insertion and on removal", C14 "recomputation when it returns 2", C09/C05 early
//! termination): one iteration of the sweep loop of `subdivide`, for an arbitrary popped event and arbitrary answers of
//! the status structure.  Every callee is replaced by a contract/recorder stub:
//!   (BinaryHeap::pop is the real one: the queue holds exactly the one scripted event, pushed with the real push; a
//!    one-element heap is popped without any comparison)
//!   SplaySet::{insert, prev, next, contains, remove} -> recorder + scripted neighbours (any of them may be absent)
//!   compute_fields             -> recorder
//!   possible_intersection      -> recorder + arbitrary return code
//! The harness then checks the *protocol*: which pairs are tested for intersection, which events are (re)classified
//! against which predecessor, what is inserted / removed, when the loop stops early.  The loop carries no state from one
//! iteration to the next except through these callees and the output vector, so one symbolic iteration is the inductive
//! step; that the status structure's answers are the geometric neighbours is C15 + C17.
use super::super::helper::{BoundingBox, Float};
use super::super::subdivide_segments::subdivide;
use super::super::sweep_event::SweepEvent;
use super::super::Operation;
use super::fields::any_op;
use super::src::*;
use geo_types::Coord;
use std::cmp::Ordering;
use std::collections::BinaryHeap;
use std::rc::{Rc, Weak};

type Ev = Rc<SweepEvent<f64>>;

const INSERT: u8 = 1;
const PREV: u8 = 2;
const NEXT: u8 = 3;
const CONTAINS: u8 = 4;
const REMOVE: u8 = 5;
const FIELDS: u8 = 6;
const INTERSECT: u8 = 7;

// Events are identified by (contour id, left flag), never by address: the recorders and the script keep NO pointer in a
// static (CBMC 6.11 / Kani 0.68 gave build-dependent verdicts for harnesses that did, DESIGN 11.8).
//   the popped event: contour 1; its partner: contour 1 with the opposite flag; the neighbour below: contour 2; the
//   neighbour above: contour 3; the neighbour below the neighbour below: contour 4 (all three are left events).
static mut LOG: [(u8, u32, u32); 16] = [(0, 0, 0); 16];
static mut LOG_N: usize = 0;
// script
static mut HAS_P1: bool = false;
static mut HAS_N1: bool = false;
static mut HAS_P0: bool = false;
static mut PI_CODES: [u8; 2] = [0; 2];
static mut PI_N: usize = 0;

// Only EFFECTS are logged (insert, remove, classify, test a pair): how often and in which order the code asks the status
// structure pure questions (contains / prev / next) is its own business -- the answers it got show in the arguments of the
// effects.  (The debug assertion in `subdivide` asks `contains` a second time, for example.)
static mut QUERIES: usize = 0;

fn log(kind: u8, a: u32, b: u32) {
    unsafe {
        if kind == PREV || kind == NEXT || kind == CONTAINS {
            QUERIES += 1;
            return;
        }
        assert!(LOG_N < 16, "call log full");
        LOG[LOG_N] = (kind, a, b);
        LOG_N += 1;
    }
}

fn code(e: &Ev) -> u32 {
    (e.contour_id << 1) | (e.is_left() as u32)
}

/// code of the event behind a generic `&T` (T = Rc<SweepEvent<f64>> in this harness)
unsafe fn id_of<T>(t: &T) -> u32 {
    code(&*(t as *const T as *const Ev))
}

/// a fresh left event with the given contour id, handed out by reference (leaked, never stored)
#[cfg(kani)]
unsafe fn neighbour<'a, T>(id: u32) -> Option<&'a T> {
    let (e, o) = seg(id, 0.0, true, true);
    std::mem::forget(o);
    let r: &'static Ev = Box::leak(Box::new(e));
    Some(&*(r as *const Ev as *const T))
}

#[cfg(kani)]
pub fn set_insert<T, C: Fn(&T, &T) -> Ordering>(_this: &mut crate::splay::SplaySet<T, C>, t: T) -> bool {
    unsafe { log(INSERT, id_of(&t), 0) };
    std::mem::forget(t);
    true
}

#[cfg(kani)]
pub fn set_prev<'a, T, C: Fn(&T, &T) -> Ordering>(_this: &'a crate::splay::SplaySet<T, C>, t: &T) -> Option<&'a T> {
    unsafe {
        let x = id_of(t);
        log(PREV, x, 0);
        if x >> 1 == 1 && HAS_P1 {
            neighbour(2)
        } else if x >> 1 == 2 && HAS_P0 {
            neighbour(4)
        } else {
            None
        }
    }
}

#[cfg(kani)]
pub fn set_next<'a, T, C: Fn(&T, &T) -> Ordering>(_this: &'a crate::splay::SplaySet<T, C>, t: &T) -> Option<&'a T> {
    unsafe {
        let x = id_of(t);
        log(NEXT, x, 0);
        if x >> 1 == 1 && HAS_N1 {
            neighbour(3)
        } else {
            None
        }
    }
}

#[cfg(kani)]
pub fn set_contains<T, C: Fn(&T, &T) -> Ordering>(_this: &crate::splay::SplaySet<T, C>, t: &T) -> bool {
    unsafe { log(CONTAINS, id_of(t), 0) };
    true // requires (global invariant of the sweep): the left partner of a popped right event is on the sweep line
}

#[cfg(kani)]
pub fn set_remove<T, C: Fn(&T, &T) -> Ordering>(_this: &mut crate::splay::SplaySet<T, C>, t: &T) -> bool {
    unsafe { log(REMOVE, id_of(t), 0) };
    true
}

#[cfg(kani)]
pub fn compute_fields_recorder<F: Float>(event: &Rc<SweepEvent<F>>, maybe_prev: Option<&Rc<SweepEvent<F>>>, _operation: Operation) {
    unsafe {
        log(FIELDS, id_of(event), match maybe_prev {
            Some(p) => id_of(p),
            None => 0,
        })
    };
}

#[cfg(kani)]
pub fn possible_intersection_recorder<F: Float>(se1: &Rc<SweepEvent<F>>, se2: &Rc<SweepEvent<F>>, _queue: &mut BinaryHeap<Rc<SweepEvent<F>>>) -> u8 {
    unsafe {
        log(INTERSECT, id_of(se1), id_of(se2));
        assert!(PI_N < 2, "more than two intersection tests in one iteration");
        let c = PI_CODES[PI_N];
        PI_N += 1;
        c
    }
}

fn seg(id: u32, x: f64, left: bool, subj: bool) -> (Ev, Ev) {
    let o = SweepEvent::new_rc(id, Coord { x: x + 1.0, y: id as f64 }, !left, Weak::new(), subj, true);
    let e = SweepEvent::new_rc(id, Coord { x, y: id as f64 }, left, Rc::downgrade(&o), subj, true);
    o.set_other_event(&e);
    (e, o)
}

fn entry(k: usize) -> (u8, u32, u32) {
    unsafe { LOG[k] }
}

pub fn sweep_step_body<S: Src>(s: &mut S) {
    let op = any_op(s);
    let left = s.bool();
    let x = s.f64();
    s.assume(x.is_finite());
    let (ev, other) = seg(1, x, left, s.bool());
    let (has_p1, has_n1, has_p0) = (s.bool(), s.bool(), s.bool());
    let (c0, c1) = (s.u8() % 4, s.u8() % 4);
    let (smax, cmax) = (s.f64(), s.f64());
    s.assume(smax.is_finite() && cmax.is_finite());
    let sbbox = BoundingBox { min: Coord { x: -1.0e9, y: -1.0e9 }, max: Coord { x: smax, y: 1.0e9 } };
    let cbbox = BoundingBox { min: Coord { x: -1.0e9, y: -1.0e9 }, max: Coord { x: cmax, y: 1.0e9 } };
    let (ev_id, other_id) = (code(&ev), code(&other));
    let (p1_id, n1_id, p0_id): (u32, u32, u32) = (5, 7, 9); // contour 2, 3, 4; left
    let null: u32 = 0;
    unsafe {
        HAS_P1 = has_p1;
        HAS_N1 = has_n1;
        HAS_P0 = has_p0;
        PI_CODES = [c0, c1];
    }
    vcover!(left && has_p1 && has_n1 && c0 == 2 && c1 == 2, "left-event-both-neighbours-overlap");
    vcover!(!left && has_p1 && has_n1, "right-event-neighbours-become-adjacent");
    vcover!(op == Operation::Intersection && x > smax, "early-termination");

    // the real queue, holding exactly the scripted event (a one-element heap is pushed and popped without comparisons)
    let mut queue: BinaryHeap<Ev> = BinaryHeap::new();
    queue.push(ev.clone());
    let out = subdivide(&mut queue, &sbbox, &cbbox, op);

    // the popped event is appended to the output, always
    assert!(out.len() == 1 && Rc::ptr_eq(&out[0], &ev), "C13: every popped event is handed on, in pop order");
    let n = unsafe { LOG_N };
    let rightbound = if smax < cmax { smax } else { cmax };
    let stop = (op == Operation::Intersection && x > rightbound) || (op == Operation::Difference && x > smax);
    let prev_or_null = if has_p1 { p1_id } else { null };
    if stop {
        assert!(n == 0, "C09/C05: right of the relevant box the sweep stops without touching the status structure");
    } else if left {
        // insertion: classify against the predecessor, test against both new neighbours, re-classify after a late overlap
        assert!(entry(0) == (INSERT, ev_id, null), "C13: a left event enters the status structure");
        assert!(entry(1) == (FIELDS, ev_id, prev_or_null), "C14: the new segment is classified against its predecessor");
        let mut k = 2;
        let mut pi = 0;
        if has_n1 {
            assert!(entry(k) == (INTERSECT, ev_id, n1_id), "C13: the new segment is tested against its upper neighbour (lower, upper)");
            k += 1;
            if [c0, c1][pi] == 2 {
                assert!(entry(k) == (FIELDS, ev_id, prev_or_null) && entry(k + 1) == (FIELDS, n1_id, ev_id), "C14: after a late overlap both twins are re-classified, lower first");
                k += 2;
            }
            pi += 1;
        }
        if has_p1 {
            assert!(entry(k) == (INTERSECT, p1_id, ev_id), "C13: the lower neighbour is tested against the new segment (lower, upper)");
            k += 1;
            if [c0, c1][pi] == 2 {
                let pp = if has_p0 { p0_id } else { null };
                assert!(entry(k) == (FIELDS, p1_id, pp) && entry(k + 1) == (FIELDS, ev_id, p1_id), "C14: after a late overlap with the lower neighbour it is re-classified against ITS predecessor, then the new segment against it");
                k += 2;
            }
        }
        assert!(n == k, "C13: nothing else happens for a left event");
    } else {
        // removal: the two segments that become adjacent are tested, whatever operands they belong to
        let mut k = 0;
        if has_p1 && has_n1 {
            assert!(entry(k) == (INTERSECT, p1_id, n1_id), "C13: the neighbours that become adjacent are tested against each other");
            k += 1;
        }
        assert!(entry(k) == (REMOVE, other_id, null) && n == k + 1, "C13: the segment leaves the status structure, nothing else happens");
    }
    std::mem::forget((out, queue, ev, other));
}

#[cfg(kani)]
mod proofs {
    use super::*;

    #[kani::proof]
    #[kani::stub(crate::splay::SplaySet::insert, set_insert)]
    #[kani::stub(crate::splay::SplaySet::prev, set_prev)]
    #[kani::stub(crate::splay::SplaySet::next, set_next)]
    #[kani::stub(crate::splay::SplaySet::contains, set_contains)]
    #[kani::stub(crate::splay::SplaySet::remove, set_remove)]
    #[kani::stub(super::super::super::compute_fields::compute_fields, compute_fields_recorder)]
    #[kani::stub(super::super::super::possible_intersection::possible_intersection, possible_intersection_recorder)]
    #[kani::unwind(4)]
    fn sweep_step() {
        sweep_step_body(&mut KaniSrc);
    }
}
