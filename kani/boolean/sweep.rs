//! U-W1 (C13 "neighbour checks on insertion and on removal", C14 "recomputation when it returns 2", C09/C05 early
//! termination): one iteration of the sweep loop of `subdivide`, for an arbitrary popped event and arbitrary answers of
//! the status structure.  Every callee is replaced by a contract/recorder stub:
//!   BinaryHeap::pop            -> hands out the scripted event, then None
//!   SplaySet::{insert, prev, next, contains, remove} -> recorder + scripted neighbours (any of them may be absent)
//!   compute_fields             -> recorder
//!   possible_intersection      -> recorder + arbitrary return code
//! The harness then checks the *protocol*: which pairs are tested for intersection, which events are (re)classified
//! against which predecessor, what is inserted / removed, when the loop stops early.  The loop carries no state from one
//! iteration to the next except through these callees and the output vector, so one symbolic iteration is the inductive
//! step; that the status structure's answers are the geometric neighbours is C15 + C17.
use super::super::helper::{BoundingBox, Float};
use super::super::subdivide_segments::subdivide;
use super::super::sweep_event::SweepEvent;
use super::super::Operation;
use super::fields::any_op;
use super::src::*;
use geo_types::Coord;
use std::cmp::Ordering;
use std::collections::BinaryHeap;
use std::rc::{Rc, Weak};

type Ev = Rc<SweepEvent<f64>>;

const INSERT: u8 = 1;
const PREV: u8 = 2;
const NEXT: u8 = 3;
const CONTAINS: u8 = 4;
const REMOVE: u8 = 5;
const FIELDS: u8 = 6;
const INTERSECT: u8 = 7;

static mut LOG: [(u8, *const (), *const ()); 16] = [(0, std::ptr::null(), std::ptr::null()); 16];
static mut LOG_N: usize = 0;
// script
static mut POP_SLOT: *const () = std::ptr::null(); // leaked Box<Ev>, handed out once
static mut POPPED: bool = false;
static mut EV: *const () = std::ptr::null(); // identities (Rc::as_ptr)
static mut OTHER: *const () = std::ptr::null();
static mut P1: *const () = std::ptr::null(); // leaked Box<Ev> or null: the neighbour below
static mut N1: *const () = std::ptr::null(); // the neighbour above
static mut P0: *const () = std::ptr::null(); // the neighbour below P1
static mut PI_CODES: [u8; 2] = [0; 2];
static mut PI_N: usize = 0;

fn log(kind: u8, a: *const (), b: *const ()) {
    unsafe {
        assert!(LOG_N < 16, "call log full");
        LOG[LOG_N] = (kind, a, b);
        LOG_N += 1;
    }
}

/// identity of the event behind a generic `&T` (T = Rc<SweepEvent<f64>> in this harness)
unsafe fn id_of<T>(t: &T) -> *const () {
    Rc::as_ptr(&*(t as *const T as *const Ev)) as *const ()
}

unsafe fn id_of_slot(slot: *const ()) -> *const () {
    if slot.is_null() {
        std::ptr::null()
    } else {
        Rc::as_ptr(&*(slot as *const Ev)) as *const ()
    }
}

#[cfg(kani)]
pub fn pop_script<T: Ord, A: std::alloc::Allocator>(_this: &mut BinaryHeap<T, A>) -> Option<T> {
    unsafe {
        if POPPED {
            None
        } else {
            POPPED = true;
            Some(std::ptr::read(POP_SLOT as *const T))
        }
    }
}

#[cfg(kani)]
pub fn set_insert<T, C: Fn(&T, &T) -> Ordering>(_this: &mut crate::splay::SplaySet<T, C>, t: T) -> bool {
    unsafe { log(INSERT, id_of(&t), std::ptr::null()) };
    std::mem::forget(t);
    true
}

#[cfg(kani)]
pub fn set_prev<'a, T, C: Fn(&T, &T) -> Ordering>(_this: &'a crate::splay::SplaySet<T, C>, t: &T) -> Option<&'a T> {
    unsafe {
        let x = id_of(t);
        log(PREV, x, std::ptr::null());
        let ans = if x == EV || x == OTHER { P1 } else if !P1.is_null() && x == id_of_slot(P1) { P0 } else { std::ptr::null() };
        if ans.is_null() {
            None
        } else {
            Some(&*(ans as *const T))
        }
    }
}

#[cfg(kani)]
pub fn set_next<'a, T, C: Fn(&T, &T) -> Ordering>(_this: &'a crate::splay::SplaySet<T, C>, t: &T) -> Option<&'a T> {
    unsafe {
        let x = id_of(t);
        log(NEXT, x, std::ptr::null());
        let ans = if x == EV || x == OTHER { N1 } else { std::ptr::null() };
        if ans.is_null() {
            None
        } else {
            Some(&*(ans as *const T))
        }
    }
}

#[cfg(kani)]
pub fn set_contains<T, C: Fn(&T, &T) -> Ordering>(_this: &crate::splay::SplaySet<T, C>, t: &T) -> bool {
    unsafe { log(CONTAINS, id_of(t), std::ptr::null()) };
    true // requires (global invariant of the sweep): the left partner of a popped right event is on the sweep line
}

#[cfg(kani)]
pub fn set_remove<T, C: Fn(&T, &T) -> Ordering>(_this: &mut crate::splay::SplaySet<T, C>, t: &T) -> bool {
    unsafe { log(REMOVE, id_of(t), std::ptr::null()) };
    true
}

#[cfg(kani)]
pub fn compute_fields_recorder<F: Float>(event: &Rc<SweepEvent<F>>, maybe_prev: Option<&Rc<SweepEvent<F>>>, _operation: Operation) {
    unsafe {
        log(FIELDS, id_of(event), match maybe_prev {
            Some(p) => id_of(p),
            None => std::ptr::null(),
        })
    };
}

#[cfg(kani)]
pub fn possible_intersection_recorder<F: Float>(se1: &Rc<SweepEvent<F>>, se2: &Rc<SweepEvent<F>>, _queue: &mut BinaryHeap<Rc<SweepEvent<F>>>) -> u8 {
    unsafe {
        log(INTERSECT, id_of(se1), id_of(se2));
        assert!(PI_N < 2, "more than two intersection tests in one iteration");
        let c = PI_CODES[PI_N];
        PI_N += 1;
        c
    }
}

fn seg(id: u32, x: f64, left: bool, subj: bool) -> (Ev, Ev) {
    let o = SweepEvent::new_rc(id, Coord { x: x + 1.0, y: id as f64 }, !left, Weak::new(), subj, true);
    let e = SweepEvent::new_rc(id, Coord { x, y: id as f64 }, left, Rc::downgrade(&o), subj, true);
    o.set_other_event(&e);
    (e, o)
}

fn leak(e: &Ev) -> *const () {
    Box::into_raw(Box::new(e.clone())) as *const ()
}

fn entry(k: usize) -> (u8, *const (), *const ()) {
    unsafe { LOG[k] }
}

pub fn sweep_step_body<S: Src>(s: &mut S) {
    let op = any_op(s);
    let left = s.bool();
    let x = s.f64();
    s.assume(x.is_finite());
    let (ev, other) = seg(1, x, left, s.bool());
    let (p1, p1o) = seg(2, 0.0, true, s.bool());
    let (n1, n1o) = seg(3, 0.0, true, s.bool());
    let (p0, p0o) = seg(4, 0.0, true, s.bool());
    let (has_p1, has_n1, has_p0) = (s.bool(), s.bool(), s.bool());
    let (c0, c1) = (s.u8() % 4, s.u8() % 4);
    let (smax, cmax) = (s.f64(), s.f64());
    s.assume(smax.is_finite() && cmax.is_finite());
    let sbbox = BoundingBox { min: Coord { x: -1.0e9, y: -1.0e9 }, max: Coord { x: smax, y: 1.0e9 } };
    let cbbox = BoundingBox { min: Coord { x: -1.0e9, y: -1.0e9 }, max: Coord { x: cmax, y: 1.0e9 } };
    let (ev_id, other_id) = (Rc::as_ptr(&ev) as *const (), Rc::as_ptr(&other) as *const ());
    let (p1_id, n1_id, p0_id) = (Rc::as_ptr(&p1) as *const (), Rc::as_ptr(&n1) as *const (), Rc::as_ptr(&p0) as *const ());
    let null: *const () = std::ptr::null();
    unsafe {
        POP_SLOT = leak(&ev);
        EV = ev_id;
        OTHER = other_id;
        P1 = if has_p1 { leak(&p1) } else { null };
        N1 = if has_n1 { leak(&n1) } else { null };
        P0 = if has_p0 { leak(&p0) } else { null };
        PI_CODES = [c0, c1];
    }
    vcover!(left && has_p1 && has_n1 && c0 == 2 && c1 == 2, "left-event-both-neighbours-overlap");
    vcover!(!left && has_p1 && has_n1, "right-event-neighbours-become-adjacent");
    vcover!(op == Operation::Intersection && x > smax, "early-termination");

    let mut queue: BinaryHeap<Ev> = BinaryHeap::new();
    let out = subdivide(&mut queue, &sbbox, &cbbox, op);

    // the popped event is appended to the output, always
    assert!(out.len() == 1 && Rc::ptr_eq(&out[0], &ev), "C13: every popped event is handed on, in pop order");
    let n = unsafe { LOG_N };
    let rightbound = if smax < cmax { smax } else { cmax };
    let stop = (op == Operation::Intersection && x > rightbound) || (op == Operation::Difference && x > smax);
    let prev_or_null = if has_p1 { p1_id } else { null };
    if stop {
        assert!(n == 0, "C09/C05: right of the relevant box the sweep stops without touching the status structure");
    } else if left {
        // insertion: classify against the predecessor, test against both new neighbours, re-classify after a late overlap
        let mut k = 0;
        assert!(entry(0) == (INSERT, ev_id, null) && entry(1) == (PREV, ev_id, null) && entry(2) == (NEXT, ev_id, null), "C13: a left event enters the status structure and asks for both neighbours");
        assert!(entry(3) == (FIELDS, ev_id, prev_or_null), "C14: the new segment is classified against its predecessor");
        k = 4;
        let mut pi = 0;
        if has_n1 {
            assert!(entry(k) == (INTERSECT, ev_id, n1_id), "C13: the new segment is tested against its upper neighbour (lower, upper)");
            k += 1;
            if [c0, c1][pi] == 2 {
                assert!(entry(k) == (FIELDS, ev_id, prev_or_null) && entry(k + 1) == (FIELDS, n1_id, ev_id), "C14: after a late overlap both twins are re-classified, lower first");
                k += 2;
            }
            pi += 1;
        }
        if has_p1 {
            assert!(entry(k) == (INTERSECT, p1_id, ev_id), "C13: the lower neighbour is tested against the new segment (lower, upper)");
            k += 1;
            if [c0, c1][pi] == 2 {
                let pp = if has_p0 { p0_id } else { null };
                assert!(entry(k) == (PREV, p1_id, null) && entry(k + 1) == (FIELDS, p1_id, pp) && entry(k + 2) == (FIELDS, ev_id, p1_id), "C14: after a late overlap with the lower neighbour it is re-classified against ITS predecessor, then the new segment against it");
                k += 3;
            }
        }
        assert!(n == k, "C13: nothing else happens for a left event");
    } else {
        // removal: the two segments that become adjacent are tested, whatever operands they belong to
        assert!(entry(0) == (CONTAINS, other_id, null) && entry(1) == (CONTAINS, other_id, null), "C13: a right event looks up its segment");
        assert!(entry(2) == (PREV, other_id, null) && entry(3) == (NEXT, other_id, null), "C13: ... and its two neighbours");
        let mut k = 4;
        if has_p1 && has_n1 {
            assert!(entry(k) == (INTERSECT, p1_id, n1_id), "C13: the neighbours that become adjacent are tested against each other");
            k += 1;
        }
        assert!(entry(k) == (REMOVE, other_id, null) && n == k + 1, "C13: the segment leaves the status structure, nothing else happens");
    }
    std::mem::forget((out, queue, ev, other, p1, p1o, n1, n1o, p0, p0o));
}

#[cfg(kani)]
mod proofs {
    use super::*;

    #[kani::proof]
    #[kani::stub(std::collections::BinaryHeap::pop, pop_script)]
    #[kani::stub(crate::splay::SplaySet::insert, set_insert)]
    #[kani::stub(crate::splay::SplaySet::prev, set_prev)]
    #[kani::stub(crate::splay::SplaySet::next, set_next)]
    #[kani::stub(crate::splay::SplaySet::contains, set_contains)]
    #[kani::stub(crate::splay::SplaySet::remove, set_remove)]
    #[kani::stub(super::super::super::compute_fields::compute_fields, compute_fields_recorder)]
    #[kani::stub(super::super::super::possible_intersection::possible_intersection, possible_intersection_recorder)]
    #[kani::unwind(4)]
    fn sweep_step() {
        sweep_step_body(&mut KaniSrc);
    }
}
