//! U-O1 / U-O2 (C15 step 1, C03, C10): `<SweepEvent as Ord>::cmp` and `compare_segments` equal the written-down orders
//! of `order_spec.rs` for ALL finite floats, all flags, and every orientation oracle / intersection oracle.
//! The geometric meaning of the oracles is the business of the Verus lemmas (C15 step 2).
use super::super::compare_segments::compare_segments;
use super::super::segment_intersection::LineIntersection;
use super::super::sweep_event::SweepEvent;
use super::src::*;
use geo_types::Coord;
use std::cmp::Ordering;
use std::rc::{Rc, Weak};

pub type N = f64;

#[derive(Clone, Copy, PartialEq, Debug)]
pub struct P {
    pub x: N,
    pub y: N,
}

#[derive(Clone, Copy, Debug)]
pub struct Ev {
    pub p: P,       // the event's point
    pub q: P,       // the other endpoint of its segment
    pub left: bool, // left endpoint?
    pub subject: bool,
    pub contour: u32,
}

include!("order_spec.rs");

// ---- orientation oracle ------------------------------------------------------------------------------------------
// Under Kani: an arbitrary *alternating* sign function of three points, collinear on degenerate triples -- strictly
// weaker than the contract of robust::orient2d (sign of the exact determinant).  The points a harness works with are
// registered first; the oracle is a table of signs indexed by (representative) point indices, so that equal points get
// equal answers and permuting the arguments flips the sign by the permutation's parity.
// Under replay: the real robust::orient2d.
pub const NP: usize = 6;
static mut PTS: [P; NP] = [P { x: 0., y: 0. }; NP];
static mut NPTS: usize = 0;
static mut SIGNS: [[[i8; NP]; NP]; NP] = [[[0; NP]; NP]; NP];

#[cfg(kani)]
pub fn register_points(ps: &[P]) {
    unsafe {
        assert!(ps.len() <= NP);
        let mut i = 0;
        while i < ps.len() {
            PTS[i] = ps[i];
            i += 1;
        }
        NPTS = ps.len();
        SIGNS = kani::any();
    }
}

#[cfg(not(kani))]
pub fn register_points(_ps: &[P]) {}

/// smallest index of a registered point equal to p
#[cfg(kani)]
fn rep(p: P) -> usize {
    unsafe {
        let mut i = 0;
        while i < NP {
            if i < NPTS && PTS[i] == p {
                return i;
            }
            i += 1;
        }
        assert!(false, "orientation asked about a point the harness did not register");
        0
    }
}

#[cfg(kani)]
pub fn orient(a: P, b: P, c: P) -> i8 {
    let (mut i, mut j, mut k, mut s) = (rep(a), rep(b), rep(c), 1i8);
    if i == j || j == k || i == k {
        return 0;
    }
    if j < i {
        std::mem::swap(&mut i, &mut j);
        s = -s;
    }
    if k < j {
        std::mem::swap(&mut j, &mut k);
        s = -s;
    }
    if j < i {
        std::mem::swap(&mut i, &mut j);
        s = -s;
    }
    let v = unsafe { SIGNS[i][j][k] };
    kani::assume(v >= -1 && v <= 1);
    s * v
}

#[cfg(not(kani))]
pub fn orient(a: P, b: P, c: P) -> i8 {
    let r = robust::orient2d(robust::Coord { x: a.x, y: a.y }, robust::Coord { x: b.x, y: b.y }, robust::Coord { x: c.x, y: c.y });
    if r > 0. {
        1
    } else if r < 0. {
        -1
    } else {
        0
    }
}

/// contract stub for robust::orient2d: a finite value with the oracle's sign
#[cfg(kani)]
pub fn orient2d_contract<T: Into<f64>>(pa: robust::Coord<T>, pb: robust::Coord<T>, pc: robust::Coord<T>) -> f64 {
    let a = P { x: pa.x.into(), y: pa.y.into() };
    let b = P { x: pb.x.into(), y: pb.y.into() };
    let c = P { x: pc.x.into(), y: pc.y.into() };
    let s = orient(a, b, c);
    let r: f64 = kani::any();
    kani::assume(r.is_finite());
    kani::assume((s > 0) == (r > 0.0));
    kani::assume((s < 0) == (r < 0.0));
    r
}

/// orientation must not be consulted at all
#[cfg(kani)]
pub fn orient2d_unreachable<T: Into<f64>>(_pa: robust::Coord<T>, _pb: robust::Coord<T>, _pc: robust::Coord<T>) -> f64 {
    assert!(false, "orientation predicate consulted where the contract says it is not");
    0.0
}

// ---- intersection oracle (compare_segments only) -----------------------------------------------------------------
static mut INTER_SET: bool = false;
static mut INTER_KIND: u8 = 0;
static mut INTER_ARGS: (P, P, P, P) = (P { x: 0., y: 0. }, P { x: 0., y: 0. }, P { x: 0., y: 0. }, P { x: 0., y: 0. });

/// 0 = None, 1 = Point(p) with p == b1 (the later left endpoint), 2 = Point(p) with p != b1, 3 = Overlap
#[cfg(kani)]
pub fn inter_kind(a1: P, a2: P, b1: P, b2: P) -> u8 {
    unsafe {
        if INTER_SET {
            assert!(INTER_ARGS.0 == a1 && INTER_ARGS.1 == a2 && INTER_ARGS.2 == b1 && INTER_ARGS.3 == b2, "intersection consulted on two different pairs");
            return INTER_KIND;
        }
        let k: u8 = kani::any();
        kani::assume(k <= 3);
        INTER_SET = true;
        INTER_KIND = k;
        INTER_ARGS = (a1, a2, b1, b2);
        k
    }
}

#[cfg(not(kani))]
pub fn inter_kind(a1: P, a2: P, b1: P, b2: P) -> u8 {
    use super::super::segment_intersection::intersection;
    let c = |p: P| Coord { x: p.x, y: p.y };
    match intersection(c(a1), c(a2), c(b1), c(b2)) {
        LineIntersection::None => 0,
        LineIntersection::Point(p) => {
            if p == c(b1) {
                1
            } else {
                2
            }
        }
        LineIntersection::Overlap(_, _) => 3,
    }
}

#[cfg(kani)]
pub fn intersection_oracle<F: super::super::helper::Float>(a1: Coord<F>, a2: Coord<F>, b1: Coord<F>, b2: Coord<F>) -> LineIntersection<F> {
    let w = |c: Coord<F>| P { x: c.x.into(), y: c.y.into() };
    match inter_kind(w(a1), w(a2), w(b1), w(b2)) {
        0 => LineIntersection::None,
        1 => LineIntersection::Point(b1),
        2 => {
            let p = Coord { x: any_float::<F>(), y: any_float::<F>() };
            kani::assume(p != b1);
            LineIntersection::Point(p)
        }
        _ => LineIntersection::Overlap(Coord { x: any_float::<F>(), y: any_float::<F>() }, Coord { x: any_float::<F>(), y: any_float::<F>() }),
    }
}

#[cfg(kani)]
fn any_float<F: super::super::helper::Float>() -> F {
    // any finite value of F, produced through f64 (exact for f64; every f32 is reachable as a rounded f64)
    let v: f64 = kani::any();
    kani::assume(v.is_finite());
    let f = F::from(v).unwrap();
    kani::assume(f.is_finite());
    f
}

// ---- harness bodies --------------------------------------------------------------------------------------------------
fn fin<F: AnyF, S: Src>(s: &mut S) -> F {
    let v = F::any(s);
    s.assume(v.is_finite());
    v
}

fn pt<F: AnyF, S: Src>(s: &mut S) -> Coord<F> {
    Coord { x: fin::<F, S>(s), y: fin::<F, S>(s) }
}

fn w<F: AnyF>(c: Coord<F>) -> P {
    P { x: c.x.into(), y: c.y.into() }
}

/// an event with a live partner; returns (event, partner)
fn mk<F: AnyF>(id: u32, p: Coord<F>, q: Coord<F>, left: bool, subj: bool) -> (Rc<SweepEvent<F>>, Rc<SweepEvent<F>>) {
    let o = SweepEvent::new_rc(id, q, !left, Weak::new(), subj, true);
    let e = SweepEvent::new_rc(id, p, left, Rc::downgrade(&o), subj, true);
    o.set_other_event(&e);
    (e, o)
}

/// U-O1: Ord::cmp never answers Equal and, on valid pairs, answers Greater ("earlier") exactly when ev_before says so
pub fn cmp_matches_spec_body<F: AnyF, S: Src>(s: &mut S) {
    let (p1, q1, p2, q2) = (pt::<F, S>(s), pt::<F, S>(s), pt::<F, S>(s), pt::<F, S>(s));
    let (l1, l2, s1, s2) = (s.bool(), s.bool(), s.bool(), s.bool());
    let (a, a_o) = mk(1, p1, q1, l1, s1);
    let (b, b_o) = mk(2, p2, q2, l2, s2);
    let ea = Ev { p: w(p1), q: w(q1), left: l1, subject: s1, contour: 1 };
    let eb = Ev { p: w(p2), q: w(q2), left: l2, subject: s2, contour: 2 };
    register_points(&[ea.p, ea.q, eb.p, eb.q]);
    vcover!(p1 == p2 && l1 == l2 && orient(ea.p, ea.q, eb.q) != 0, "angular-tie-break");
    vcover!(p1 == p2 && l1 == l2 && orient(ea.p, ea.q, eb.q) == 0 && s1 != s2, "collinear-subject-first");
    vcover!(p1.x == p2.x && p1.y != p2.y, "same-x");
    let r = a.cmp(&b);
    assert!(r != Ordering::Equal, "C15: the event order never answers Equal");
    if ev_pair_valid(ea, eb) {
        // BinaryHeap is a max-heap: Greater == processed earlier
        assert!((r == Ordering::Greater) == ev_before(ea, eb), "C15: event order = x, y, right-before-left, angular, subject-first");
    }
    assert!(a.is_before(&b) == (r == Ordering::Greater) && a.is_after(&b) == (r == Ordering::Less), "is_before/is_after follow cmp");
    std::mem::forget((a, a_o, b, b_o));
}

/// U-O2: compare_segments answers Equal exactly for the identical segment and otherwise the written-down segment order
pub fn compare_segments_matches_spec_body<F: AnyF, S: Src>(s: &mut S) {
    let (p1, q1, p2, q2) = (pt::<F, S>(s), pt::<F, S>(s), pt::<F, S>(s), pt::<F, S>(s));
    let (s1, s2) = (s.bool(), s.bool());
    let (c1, c2) = (s.u32(), s.u32());
    let (a, a_o) = mk(c1, p1, q1, true, s1);
    let (b, b_o) = mk(c2, p2, q2, true, s2);
    let ea = Ev { p: w(p1), q: w(q1), left: true, subject: s1, contour: c1 };
    let eb = Ev { p: w(p2), q: w(q2), left: true, subject: s2, contour: c2 };
    register_points(&[ea.p, ea.q, eb.p, eb.q]);
    // requires: both are left events of valid segments (left endpoint first in (x,y) order) and a valid event pair
    s.assume(pt_lt(ea.p, ea.q) && pt_lt(eb.p, eb.q));
    s.assume(ev_pair_valid(ea, eb));
    vcover!(p1 == p2 && orient(ea.p, ea.q, eb.q) != 0, "shared-left-endpoint");
    vcover!(orient(ea.p, ea.q, eb.p) == 0 && orient(ea.p, ea.q, eb.q) == 0 && s1 != s2, "collinear-different-operands");
    vcover!(orient(ea.p, ea.q, eb.p) > 0 && orient(ea.p, ea.q, eb.q) < 0 && p1.x != p2.x, "crossing-by-orientation");
    let r = compare_segments(&a, &b);
    assert!(r != Ordering::Equal, "C15: Equal only for the identical segment");
    assert!((r == Ordering::Less) == seg_below(ea, eb), "C15: segment order = orientation of the later left endpoint w.r.t. the earlier segment");
    let same = compare_segments(&a, &a);
    assert!(same == Ordering::Equal, "C15: a segment equals itself");
    std::mem::forget((a, a_o, b, b_o));
}

#[cfg(kani)]
mod proofs {
    use super::*;

    #[kani::proof]
    #[kani::stub(robust::orient2d, orient2d_contract)]
    #[kani::unwind(8)]
    fn cmp_matches_spec_f64() {
        cmp_matches_spec_body::<f64, _>(&mut KaniSrc);
    }

    #[kani::proof]
    #[kani::stub(robust::orient2d, orient2d_contract)]
    #[kani::unwind(8)]
    fn cmp_matches_spec_f32() {
        cmp_matches_spec_body::<f32, _>(&mut KaniSrc);
    }

    #[kani::proof]
    #[kani::stub(robust::orient2d, orient2d_contract)]
    #[kani::stub(super::super::super::segment_intersection::intersection, intersection_oracle)]
    #[kani::unwind(8)]
    fn compare_segments_matches_spec_f64() {
        compare_segments_matches_spec_body::<f64, _>(&mut KaniSrc);
    }

    #[kani::proof]
    #[kani::stub(robust::orient2d, orient2d_contract)]
    #[kani::stub(super::super::super::segment_intersection::intersection, intersection_oracle)]
    #[kani::unwind(8)]
    fn compare_segments_matches_spec_f32() {
        compare_segments_matches_spec_body::<f32, _>(&mut KaniSrc);
    }
}
