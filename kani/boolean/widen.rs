//! C10 mechanism: `signed_area::<F>` hands the orientation predicate exactly the coordinates it was given, widened
//! losslessly to f64 (for F = f32 every value is exactly representable), in the same argument order, and returns the
//! predicate's value unchanged.
use super::super::signed_area::signed_area;
use super::src::*;
use geo_types::Coord;

static mut SEEN: [f64; 6] = [0.0; 6];
static mut CALLS: u32 = 0;

#[cfg(kani)]
pub fn orient2d_recorder<T: Into<f64>>(pa: robust::Coord<T>, pb: robust::Coord<T>, pc: robust::Coord<T>) -> f64 {
    unsafe {
        SEEN = [pa.x.into(), pa.y.into(), pb.x.into(), pb.y.into(), pc.x.into(), pc.y.into()];
        CALLS += 1;
    }
    42.5
}

pub fn signed_area_widening_body<F: AnyF, S: Src>(s: &mut S) {
    let mut c = [F::any(s), F::any(s), F::any(s), F::any(s), F::any(s), F::any(s)];
    let mut i = 0;
    while i < 6 {
        s.assume(c[i].is_finite());
        i += 1;
    }
    let r = signed_area(Coord { x: c[0], y: c[1] }, Coord { x: c[2], y: c[3] }, Coord { x: c[4], y: c[5] });
    #[cfg(kani)]
    unsafe {
        assert!(CALLS == 1, "C10: the orientation predicate is consulted exactly once");
        let mut i = 0;
        while i < 6 {
            let wide: f64 = c[i].into();
            assert!(SEEN[i] == wide, "C10: coordinates reach the predicate widened to f64, in order");
            // widening is lossless: narrowing back gives the original value
            assert!(F::from(wide).unwrap() == c[i], "C10: widening is lossless");
            i += 1;
        }
        assert!(r == 42.5, "C10: the predicate's value is returned unchanged");
    }
}

#[cfg(kani)]
mod proofs {
    use super::*;

    #[kani::proof]
    #[kani::stub(robust::orient2d, orient2d_recorder)]
    #[kani::unwind(8)]
    fn signed_area_widening_f32() {
        signed_area_widening_body::<f32, _>(&mut KaniSrc);
    }

    #[kani::proof]
    #[kani::stub(robust::orient2d, orient2d_recorder)]
    #[kani::unwind(8)]
    fn signed_area_widening_f64() {
        signed_area_widening_body::<f64, _>(&mut KaniSrc);
    }
}
