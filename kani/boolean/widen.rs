//! C10 mechanism: `signed_area::<F>` hands the orientation predicate exactly the coordinates it was given, widened
//! losslessly to f64 (for F = f32 every value is exactly representable), in the same argument order, and returns the
//! predicate's value unchanged.
use super::super::signed_area::signed_area;
use super::src::*;
use geo_types::Coord;

static mut SEEN: [f64; 6] = [0.0; 6];
static mut CALLS: u32 = 0;

#[cfg(kani)]
pub fn orient2d_recorder<T: Into<f64>>(pa: robust::Coord<T>, pb: robust::Coord<T>, pc: robust::Coord<T>) -> f64 {
    unsafe {
        SEEN = [pa.x.into(), pa.y.into(), pb.x.into(), pb.y.into(), pc.x.into(), pc.y.into()];
        CALLS += 1;
    }
    42.5
}

pub fn signed_area_widening_body<F: AnyF, S: Src>(s: &mut S) {
    let mut c = [F::any(s), F::any(s), F::any(s), F::any(s), F::any(s), F::any(s)];
    let mut i = 0;
    while i < 6 {
        s.assume(c[i].is_finite());
        i += 1;
    }
    let r = signed_area(Coord { x: c[0], y: c[1] }, Coord { x: c[2], y: c[3] }, Coord { x: c[4], y: c[5] });
    #[cfg(kani)]
    unsafe {
        assert!(CALLS == 1, "C10: the orientation predicate is consulted exactly once");
        let mut i = 0;
        while i < 6 {
            let wide: f64 = c[i].into();
            assert!(SEEN[i] == wide, "C10: coordinates reach the predicate widened to f64, in order");
            // widening is lossless: narrowing back gives the original value
            assert!(F::from(wide).unwrap() == c[i], "C10: widening is lossless");
            i += 1;
        }
        assert!(r == 42.5, "C10: the predicate's value is returned unchanged");
    }
}

#[cfg(kani)]
mod proofs {
    use super::*;

    #[kani::proof]
    #[kani::stub(robust::orient2d, orient2d_recorder)]
    #[kani::unwind(8)]
    fn signed_area_widening_f32() {
        signed_area_widening_body::<f32, _>(&mut KaniSrc);
    }

    #[kani::proof]
    #[kani::stub(robust::orient2d, orient2d_recorder)]
    #[kani::unwind(8)]
    fn signed_area_widening_f64() {
        signed_area_widening_body::<f64, _>(&mut KaniSrc);
    }
}

// ---- NextAfter (C10 mechanism "one-ulp bump of a division point via NextAfter") --------------------------------------------------
// For every finite value of both float types `nextafter(true)` is the next representable value above and
// `nextafter(false)` the next one below (stated on the bit patterns, so independent of the implementation).
macro_rules! nextafter_body {
    ($name:ident, $f:ty, $u:ty, $src:ident) => {
        pub fn $name<S: Src>(s: &mut S) {
            use super::super::helper::NextAfter;
            let x: $f = s.$src();
            s.assume(x.is_finite());
            let up = x.nextafter(true);
            let dn = x.nextafter(false);
            let b = x.to_bits();
            let sign: $u = 1 << (<$u>::BITS - 1);
            vcover!(x < 0.0, "negative");
            vcover!(x == 0.0, "zero");
            // expected successor / predecessor on bit patterns (sign-magnitude encoding)
            let exp_up: $u = if x == 0.0 { 1 } else if x > 0.0 { b + 1 } else { b - 1 };
            let exp_dn: $u = if x == 0.0 { sign | 1 } else if x > 0.0 { b - 1 } else { b + 1 };
            assert!(up.to_bits() == exp_up, "C10: nextafter(true) is the next representable value above");
            assert!(dn.to_bits() == exp_dn, "C10: nextafter(false) is the next representable value below");
            assert!(up > x && dn < x, "C10: one ulp up is larger, one ulp down is smaller");
        }
    };
}
nextafter_body!(nextafter_successor_f32_body, f32, u32, f32);
nextafter_body!(nextafter_successor_f64_body, f64, u64, f64);

#[cfg(kani)]
mod proofs_nextafter {
    use super::*;

    #[kani::proof]
    fn nextafter_successor_f32() {
        nextafter_successor_f32_body(&mut KaniSrc);
    }

    #[kani::proof]
    fn nextafter_successor_f64() {
        nextafter_successor_f64_body(&mut KaniSrc);
    }
}
