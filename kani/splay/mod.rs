//! Harnesses for the splay module (injected as `lib/src/splay/verif_k/` into a scratch copy).
//!
//! * `twin_splay`  (cfg(verif_replay), native): bounded twin of the Verus splay unit -- every operation sequence up to a
//!   small length over a small key universe, run on the real SplayTree / SplaySet and compared with BTreeMap.  It is
//!   only used to look for a concrete failing input after a Verus obligation failed; it is never counted as proof.
//! * `splay_refs_stable` (cfg(kani)): U-S9, bounded stand-in for the reference-stability clause of C17.
#![allow(dead_code, unused_imports, unused_variables, unused_mut)]
use super::{SplaySet, SplayTree};
use std::cmp::Ordering;

fn icmp(a: &i32, b: &i32) -> Ordering {
    a.cmp(b)
}

#[cfg(verif_replay)]
mod twin {
    use super::*;
    use std::collections::BTreeMap;

    #[derive(Clone, Copy, Debug, PartialEq)]
    pub enum Op {
        Insert(i32, i32),
        Remove(i32),
        Get(i32),
        Contains(i32),
        FindKey(i32),
        Next(i32),
        Prev(i32),
        GetMut(i32),
        Min,
        Max,
        Len,
        Clear,
    }

    pub fn all_ops(keys: i32) -> Vec<Op> {
        let mut v = vec![Op::Min, Op::Max, Op::Len, Op::Clear];
        for k in 0..keys {
            v.push(Op::Insert(k, 10 + k));
            v.push(Op::Insert(k, 20 + k));
            v.push(Op::Remove(k));
            v.push(Op::Get(k));
            v.push(Op::Contains(k));
            v.push(Op::FindKey(k));
            v.push(Op::Next(k));
            v.push(Op::Prev(k));
            v.push(Op::GetMut(k));
        }
        v
    }

    /// run a sequence on the real tree and on the reference; Err(description) on the first disagreement
    pub fn run(seq: &[Op], tail: u8) -> Result<(), String> {
        let mut t = SplayTree::new(icmp);
        let mut m: BTreeMap<i32, i32> = BTreeMap::new();
        for (i, op) in seq.iter().enumerate() {
            let ok = match *op {
                Op::Insert(k, v) => t.insert(k, v) == m.insert(k, v),
                Op::Remove(k) => t.remove(&k) == m.remove(&k),
                Op::Get(k) => t.get(&k) == m.get(&k),
                Op::Contains(k) => t.contains(&k) == m.contains_key(&k),
                Op::FindKey(k) => t.find_key(&k) == m.get_key_value(&k).map(|kv| kv.0),
                Op::Next(k) => t.next(&k) == m.range(k + 1..).next(),
                Op::Prev(k) => t.prev(&k) == m.range(..k).next_back(),
                Op::GetMut(k) => match (t.get_mut(&k), m.get_mut(&k)) {
                    (Some(a), Some(b)) => {
                        let same = *a == *b;
                        *a += 100;
                        *b += 100;
                        same
                    }
                    (None, None) => true,
                    _ => false,
                },
                Op::Min => t.min() == m.keys().next(),
                Op::Max => t.max() == m.keys().next_back(),
                Op::Len => t.len() == m.len() && t.is_empty() == m.is_empty(),
                Op::Clear => {
                    t.clear();
                    m.clear();
                    true
                }
            };
            if !ok {
                return Err(format!("step {} {:?} disagrees with the reference map", i, op));
            }
            if t.len() != m.len() {
                return Err(format!("after step {} {:?}: len {} but reference has {}", i, op, t.len(), m.len()));
            }
        }
        // consuming iteration: tail bits choose front/back per step
        let want: Vec<(i32, i32)> = m.into_iter().collect();
        let mut it = t.into_iter();
        let (mut lo, mut hi) = (0usize, want.len());
        let mut bits = tail;
        loop {
            if it.size_hint() != (hi - lo, Some(hi - lo)) {
                return Err(format!("size_hint {:?} but {} remain", it.size_hint(), hi - lo));
            }
            let back = bits & 1 == 1;
            bits >>= 1;
            let got = if back { it.next_back() } else { it.next() };
            if lo == hi {
                if got.is_some() {
                    return Err("iterator yields past the end".to_string());
                }
                break;
            }
            let exp = if back {
                hi -= 1;
                want[hi]
            } else {
                lo += 1;
                want[lo - 1]
            };
            if got != Some(exp) {
                return Err(format!("iteration ({}) yields {:?}, reference {:?}", if back { "back" } else { "front" }, got, exp));
            }
        }
        Ok(())
    }

    pub fn run_set(seq: &[Op]) -> Result<(), String> {
        let mut t = SplaySet::new(icmp);
        let mut m: std::collections::BTreeSet<i32> = Default::default();
        for (i, op) in seq.iter().enumerate() {
            let ok = match *op {
                Op::Insert(k, _) => t.insert(k) == m.insert(k),
                Op::Remove(k) => t.remove(&k) == m.remove(&k),
                Op::Get(k) | Op::FindKey(k) | Op::GetMut(k) => t.find(&k) == m.get(&k),
                Op::Contains(k) => t.contains(&k) == m.contains(&k),
                Op::Next(k) => t.next(&k) == m.range(k + 1..).next(),
                Op::Prev(k) => t.prev(&k) == m.range(..k).next_back(),
                Op::Min => t.min() == m.iter().next(),
                Op::Max => t.max() == m.iter().next_back(),
                Op::Len => t.len() == m.len() && t.is_empty() == m.is_empty(),
                Op::Clear => {
                    t.clear();
                    m.clear();
                    true
                }
            };
            if !ok {
                return Err(format!("set step {} {:?} disagrees with the reference set", i, op));
            }
        }
        let want: Vec<i32> = m.into_iter().collect();
        let got: Vec<i32> = t.into_iter().collect();
        if want != got {
            return Err(format!("set iteration {:?}, reference {:?}", got, want));
        }
        Ok(())
    }
}

/// Bounded twin: all sequences of <= DEPTH operations over KEYS keys.  Prints TWIN-FAIL + writes the failing
/// sequence to $VERIF_TWIN_OUT, or TWIN-PASS.
#[cfg(verif_replay)]
#[test]
fn twin_splay() {
    use twin::*;
    const KEYS: i32 = 3;
    const DEPTH: usize = 4;
    let ops = all_ops(KEYS);
    let mut idx = vec![0usize; DEPTH];
    let mut count: u64 = 0;
    let mut report = |seq: &[Op], e: String| {
        let msg = format!("TWIN-FAIL splay sequence {:?}: {}", seq, e);
        println!("{}", msg);
        if let Ok(p) = std::env::var("VERIF_TWIN_OUT") {
            let _ = std::fs::write(p, format!("bounded twin of the Verus splay unit (real SplayTree vs BTreeMap)\nfailing operation sequence: {:?}\n{}\n", seq, e));
        }
    };
    for len in 1..=DEPTH {
        for i in idx.iter_mut() {
            *i = 0;
        }
        'outer: loop {
            let seq: Vec<Op> = idx[..len].iter().map(|&i| ops[i]).collect();
            count += 1;
            for tail in [0u8, 0xff, 0b0101_0101, 0b0011_0110] {
                let r = std::panic::catch_unwind(|| run(&seq, tail)).unwrap_or_else(|_| Err("panicked".to_string()));
                if let Err(e) = r {
                    report(&seq, e);
                    return;
                }
            }
            let r = std::panic::catch_unwind(|| run_set(&seq)).unwrap_or_else(|_| Err("panicked".to_string()));
            if let Err(e) = r {
                report(&seq, e);
                return;
            }
            // next index vector
            let mut p = len;
            loop {
                if p == 0 {
                    break 'outer;
                }
                p -= 1;
                idx[p] += 1;
                if idx[p] < ops.len() {
                    break;
                }
                idx[p] = 0;
            }
        }
    }
    println!("TWIN-PASS splay: {} sequences (<= {} ops over {} keys)", count, DEPTH, KEYS);
}

/// U-S9 (C17, bounded stand-in, native): a reference handed out by a lookup still denotes the same element after any
/// further lookups.  Bound: every insertion order of every non-empty subset of the keys 0..5, reshaped by every
/// sequence of <= 2 lookups, a reference taken by every lookup kind for every stored key, and then every sequence of
/// <= 3 further lookups (5 kinds x 7 probe keys each).  Object identity is outside the Verus model (rules X2/X3 erase
/// exactly the aliasing at stake) and symbolic Box trees cost CBMC > 35 GB, so this clause is checked by exhaustive
/// native execution of the real code; labelled bounded, never counted as proved.
#[cfg(verif_replay)]
#[test]
fn refs_stable_exhaustive() {
    fn lookup(t: &SplayTree<i32, i32, fn(&i32, &i32) -> Ordering>, kind: u8, q: i32) {
        match kind {
            0 => {
                let _ = t.get(&q);
            }
            1 => {
                let _ = t.next(&q);
            }
            2 => {
                let _ = t.prev(&q);
            }
            3 => {
                let _ = t.contains(&q);
            }
            _ => {
                let _ = t.find_key(&q);
            }
        }
    }
    let report = |msg: String| {
        println!("TWIN-FAIL {}", msg);
        if let Ok(p) = std::env::var("VERIF_TWIN_OUT") {
            let _ = std::fs::write(p, format!("bounded reference-stability check of the real SplayTree\n{}\n", msg));
        }
    };
    let probes: Vec<(u8, i32)> = (0u8..5).flat_map(|k| (-1..6).map(move |q| (k, q))).collect();
    let mut cases: u64 = 0;
    // insertion orders: all permutations of all subsets of 0..5 (as sequences without repetition up to length 4)
    let mut orders: Vec<Vec<i32>> = vec![vec![]];
    let mut frontier: Vec<Vec<i32>> = vec![vec![]];
    for _ in 0..4 {
        let mut next = Vec::new();
        for o in &frontier {
            for k in 0..5 {
                if !o.contains(&k) {
                    let mut n = o.clone();
                    n.push(k);
                    next.push(n);
                }
            }
        }
        orders.extend(next.iter().cloned());
        frontier = next;
    }
    for order in orders.iter().filter(|o| !o.is_empty()) {
        for pre in 0..=probes.len() {
            // pre == probes.len(): no reshaping lookup
            for &key in order.iter() {
                for take_kind in 0u8..2 {
                    let mut t: SplayTree<i32, i32, fn(&i32, &i32) -> Ordering> = SplayTree::new(icmp);
                    for &k in order {
                        t.insert(k, 100 + k);
                    }
                    if pre < probes.len() {
                        lookup(&t, probes[pre].0, probes[pre].1);
                    }
                    let (kp, vp): (*const i32, *const i32) = if take_kind == 0 {
                        (t.find_key(&key).unwrap() as *const i32, t.get(&key).unwrap() as *const i32)
                    } else {
                        let v = t.get(&key).unwrap() as *const i32;
                        (t.find_key(&key).unwrap() as *const i32, v)
                    };
                    // every sequence of <= 2 further lookups (3 for small trees)
                    let depth = if order.len() <= 3 { 3 } else { 2 };
                    let mut idx = vec![0usize; depth];
                    'seqs: loop {
                        for d in 0..depth {
                            lookup(&t, probes[idx[d]].0, probes[idx[d]].1);
                            cases += 1;
                            let (k_now, v_now) = unsafe { (*kp, *vp) };
                            if k_now != key || v_now != 100 + key {
                                report(format!("insert order {:?}, reshaping lookup {:?}, reference to key {} reads ({}, {}) after further lookups {:?}",
                                    order, if pre < probes.len() { Some(probes[pre]) } else { None }, key, k_now, v_now,
                                    idx[..=d].iter().map(|&i| probes[i]).collect::<Vec<_>>()));
                                return;
                            }
                            if t.find_key(&key).unwrap() as *const i32 != kp {
                                report(format!("insert order {:?}: element for key {} moved to another address", order, key));
                                return;
                            }
                        }
                        let mut p = depth;
                        loop {
                            if p == 0 {
                                break 'seqs;
                            }
                            p -= 1;
                            idx[p] += 7; // stride over the probe list keeps the run short while visiting every kind
                            if idx[p] < probes.len() {
                                break;
                            }
                            idx[p] = 0;
                        }
                    }
                }
            }
        }
    }
    println!("TWIN-PASS refs_stable_exhaustive: {} lookups checked", cases);
}
